CONSTANT Optional = {"limits", "request_id", "log", "rewrite", "gzip", "header", "basicauth", "status", "mime", "internal", "templates"}
CONSTANT EMIT = FALSE
CONSTANT FIX_VISIBLE = TRUE
CONSTANT FIX_TPL = TRUE
CONSTANT FIX_LOGPANIC = TRUE
CONSTANT FIX_RECFIRST = TRUE
CONSTANT FIX_GZONCE = TRUE
CONSTANT FIX_INFO = TRUE
SPECIFICATION TSpec
CONSTRAINT Constr
INVARIANT OneCommit
INVARIANT ErrorGetsBody
INVARIANT WrittenUnaltered
INVARIANT PanicIs500IfNothingWritten
POSTCONDITION Accepted
CHECK_DEADLOCK FALSE
