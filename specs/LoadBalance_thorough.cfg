CONSTANT MaxN = 6
CONSTANT MF = 2
CONSTANT MCs = {0, 2}
CONSTANT Probing = "linear"
CONSTANT RRRounds = 8
INIT Init
NEXT Next
INVARIANT TypeOK
INVARIANT ReturnsAvailable
INVARIANT FirstEarliest
INVARIANT LeastLoaded
INVARIANT Sticky
INVARIANT RREven
INVARIANT MatchesOperators
INVARIANT RRMatchesOperator
CHECK_DEADLOCK FALSE
