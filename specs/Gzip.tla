-------------------------------- MODULE Gzip --------------------------------
(***************************************************************************)
(* C18 - compression never changes what the client decodes.                *)
(*                                                                         *)
(* Operational part, shaped like caskethttp/gzip (and the sibling choice   *)
(* of staticfiles.serveFile):                                              *)
(*   RequestFilters  Gzip.ServeHTTP: Accept-Encoding test, `not` paths,    *)
(*                   extension filter -> the response writer is wrapped    *)
(*                   (engaged) or the request passes through untouched     *)
(*   InnerHeaders    the inner handler fills the header map (a scripted    *)
(*                   handler, or the static file server which first picks  *)
(*                   a precompressed sibling: zstd > br > gzip among those *)
(*                   the client lists literally and that exist)            *)
(*   DoStatus / DoWrite / DoFlush   one handler call each. The first of    *)
(*                   them is "header time" (Decide): ResponseFilterWriter. *)
(*                   WriteHeader runs the response filters (already        *)
(*                   encoded? min_length?) and, if it compresses,          *)
(*                   gzipResponseWriter.WriteHeader rewrites the headers   *)
(*                   (Content-Length removed, Content-Encoding: gzip,      *)
(*                   Vary, weak ETag); writes then go into the gzip stream *)
(*                   or straight to the client                             *)
(*   Finish          the handler returns; the deferred putWriter closes    *)
(*                   the gzip stream (trailer).                            *)
(* The byte level (deflate) is not modelled: the wire body is the pair     *)
(* (raw bytes, bytes inside a gzip stream, stream closed?) and the header  *)
(* snapshot that went out; Go's compress/gzip is the reference decoder in  *)
(* the harness.                                                            *)
(*                                                                         *)
(* Repaired = TRUE is the design after the three repairs of notes/C18.md;  *)
(* Repaired = FALSE (Gzip_oldcode.cfg, negative control) is the code as    *)
(* found: substring test on Accept-Encoding, skip list without zstd, Flush *)
(* going to the client before header time.                                 *)
(***************************************************************************)
EXTENDS Integers, Sequences, FiniteSets, TLC, Json

CONSTANTS Repaired,
          AETexts,      \* which Accept-Encoding values (by text)
          Statuses, PreCEs, ETags, PatIdx,   \* alphabets of the scripted inner response (family B)
          LevelsA, LevelsB, MinLens

\* ---- Accept-Encoding values: literal text + parsed elements (q in tenths; bare = no parameters) ----
El(n, q, b) == [n |-> n, q |-> q, bare |-> b]
AllAEs == {
  [text |-> "absent",              el |-> <<>>],
  [text |-> "gzip",                el |-> <<El("gzip", 10, TRUE)>>],
  [text |-> "gzip, br",            el |-> <<El("gzip", 10, TRUE), El("br", 10, TRUE)>>],
  [text |-> "zstd, gzip",          el |-> <<El("zstd", 10, TRUE), El("gzip", 10, TRUE)>>],
  [text |-> "gzip, deflate, br, zstd", el |-> <<El("gzip", 10, TRUE), El("deflate", 10, TRUE), El("br", 10, TRUE), El("zstd", 10, TRUE)>>],
  [text |-> "br",                  el |-> <<El("br", 10, TRUE)>>],
  [text |-> "zstd",                el |-> <<El("zstd", 10, TRUE)>>],
  [text |-> "identity",            el |-> <<El("identity", 10, TRUE)>>],
  [text |-> "*",                   el |-> <<El("*", 10, TRUE)>>],
  [text |-> "gzip;q=0",            el |-> <<El("gzip", 0, FALSE)>>],
  \* the same refusal spelled with optional white space around ";" (RFC 7231's own examples do)
  [text |-> "gzip; q=0",           el |-> <<El("gzip", 0, FALSE)>>],
  [text |-> "identity; q=1.0, gzip ; q=0.0", el |-> <<El("identity", 10, FALSE), El("gzip", 0, FALSE)>>],
  [text |-> "br, gzip;q=0",        el |-> <<El("br", 10, TRUE), El("gzip", 0, FALSE)>>],
  [text |-> "gzip;q=0.5, zstd",    el |-> <<El("gzip", 5, FALSE), El("zstd", 10, TRUE)>>],
  [text |-> "gzip;q=0, *",         el |-> <<El("gzip", 0, FALSE), El("*", 10, TRUE)>>],
  [text |-> "*, gzip;q=0",         el |-> <<El("*", 10, TRUE), El("gzip", 0, FALSE)>>],
  [text |-> "gzip, br;q=0",        el |-> <<El("gzip", 10, TRUE), El("br", 0, FALSE)>>],
  [text |-> "x-gzip",              el |-> <<El("x-gzip", 10, TRUE)>>] }
AEs == {a \in AllAEs : a.text \in AETexts}

Names(a) == {a.el[i].n : i \in 1..Len(a.el)}
\* declarative: did the client offer gzip?
\* (an element naming gzip decides; only without one does a "*" element offer it)
NamesGzip(a) == {i \in 1..Len(a.el) : a.el[i].n \in {"gzip", "x-gzip"}}
OffersGzip(a) == IF NamesGzip(a) # {} THEN \E i \in NamesGzip(a) : a.el[i].q > 0
                 ELSE \E i \in 1..Len(a.el) : a.el[i].n = "*" /\ a.el[i].q > 0
\* the middleware's own test
AcceptsGzip(a) == IF Repaired THEN \E i \in 1..Len(a.el) : a.el[i].n \in {"gzip", "x-gzip"} /\ a.el[i].q > 0
                  ELSE \E i \in 1..Len(a.el) : a.el[i].n \in {"gzip", "x-gzip"}     \* strings.Contains(.., "gzip")
\* staticfiles: an element counts only if it is literally the coding name
Lists(a, nm) == \E i \in 1..Len(a.el) : a.el[i].n = nm /\ a.el[i].bare

\* ---- configuration, request path -------------------------------------------
Cfg(e, nt, lv, ml) == [ext |-> e, not |-> nt, level |-> lv, minlen |-> ml]
PathsAll == {"/a.txt", "/a.bin", "/a", "/x/a.txt"}
ExtOf(p) == IF p \in {"/a.txt", "/x/a.txt", "/s.txt"} THEN ".txt" ELSE IF p = "/a.bin" THEN ".bin" ELSE ""
UnderX(p) == p = "/x/a.txt"
ExtOK(c, p) == \/ c.ext = "star"
               \/ c.ext = "txt" /\ ExtOf(p) = ".txt"
               \/ c.ext = "default" /\ ExtOf(p) \in {"", ".txt"}     \* ".bin" is not in defaultExtensions

\* ---- inner responses ------------------------------------------------------
AllPatterns == << <<"wL">>, <<"wS">>, <<>>, <<"w0">>, <<"wS", "wL">>, <<"f", "wL">>, <<"wL", "f", "wS">>,
                  <<"w0", "wL">>, <<"wL", "w0", "f">>, <<"f">>, <<"f", "f", "wS">>, <<"wL", "wL", "wL">>, <<"w0", "f", "wL">>, <<"wX">>, <<"wS", "f", "wX">>,
                  \* "h" = a further WriteHeader call after the response has begun (net/http ignores it; error
                  \* layers make one when they answer on top of a written response)
                  <<"wS", "h", "wL">>, <<"wL", "h", "wS", "f">>,
                  \* "i" = an informational header (103 Early Hints) sent before the handler has set its response
                  \* headers; it decides nothing (listed first: the harness sends it before the headers)
                  <<"i", "wL">>, <<"i", "wS", "f", "wL">> >>
Bytes(op) == IF op = "wL" THEN 100 ELSE IF op = "wS" THEN 5 ELSE IF op = "wX" THEN 70000 ELSE 0
RECURSIVE Total(_)
Total(ops) == IF ops = <<>> THEN 0 ELSE Bytes(Head(ops)) + Total(Tail(ops))
BodyAllowed(st) == st \notin {204, 304}

Probe(st, ex, ct, cl, pre, et, ops) ==
    [kind |-> "probe", status |-> st, explicit |-> ex, ct |-> ct, cl |-> cl, pre |-> pre, etag |-> et, ops |-> ops, sibs |-> <<>>]
ProbesB == {Probe(st, ex, ct, cl, pre, et, AllPatterns[p]) :
               st \in Statuses, ex \in BOOLEAN, ct \in BOOLEAN, cl \in BOOLEAN, pre \in PreCEs, et \in ETags, p \in PatIdx}
OKProbe(x) == (x.status # 200 => x.explicit) /\ (x.cl => BodyAllowed(x.status))
SimpleProbes == {Probe(200, FALSE, TRUE, TRUE, "none", "none", <<"wL">>), Probe(200, TRUE, FALSE, FALSE, "none", "strong", <<"wS", "wL">>)}
SibSeqs == {<<>>, <<"gz">>, <<"br">>, <<"zst">>, <<"gz", "br">>, <<"gz", "zst">>, <<"br", "zst">>, <<"gz", "br", "zst">>}
Has(sibs, s) == \E i \in 1..Len(sibs) : sibs[i] = s
Static(sibs) == [kind |-> "static", status |-> 200, explicit |-> TRUE, ct |-> TRUE, cl |-> TRUE, pre |-> "none", etag |-> "strong", ops |-> <<"wL">>, sibs |-> sibs, hidden |-> FALSE]
\* a file on the site's hide list (the Casketfile itself) that has every precompressed sibling: the
\* file server answers 404 whatever the client offers, and nothing about the siblings shows
HiddenStatic == [kind |-> "static", status |-> 404, explicit |-> TRUE, ct |-> TRUE, cl |-> FALSE, pre |-> "none", etag |-> "none", ops |-> <<"wS">>,
                 sibs |-> <<"gz", "br", "zst">>, hidden |-> TRUE]
\* serveFile: staticEncodingPriority
StaticPre(sibs, a) == IF Lists(a, "zstd") /\ Has(sibs, "zst") THEN "zstd"
                      ELSE IF Lists(a, "br") /\ Has(sibs, "br") THEN "br"
                      ELSE IF Lists(a, "gzip") /\ Has(sibs, "gz") THEN "gzip" ELSE "none"
StaticCE(x, a) == IF x.hidden THEN "none" ELSE StaticPre(x.sibs, a)

VARIABLES cfg, path, ae, inner,
          pc, opi,
          engaged,      \* the gzip middleware wrapped the response writer
          decided, compress,
          hdr,          \* the header map the handler sees: [ce, cl, etag, vary]
          sent, wire,   \* header snapshot that went to the client
          raw, gzin,    \* body bytes written plainly / into the gzip stream
          gzopen, closed
vars == <<cfg, path, ae, inner, pc, opi, engaged, decided, compress, hdr, sent, wire, raw, gzin, gzopen, closed>>

NoHdr == [ce |-> "none", cl |-> FALSE, etag |-> "none", vary |-> FALSE]

Init ==
    /\ \/ \* family A: the request filters - every block x every path, simple inner responses
          /\ cfg \in {Cfg(e, nt, lv, ml) : e \in {"default", "txt", "star"}, nt \in BOOLEAN, lv \in LevelsA, ml \in MinLens}
          /\ path \in PathsAll
          /\ ae \in {a \in AEs : a.text \in {"absent", "gzip", "gzip;q=0", "zstd, gzip", "gzip, br;q=0", "gzip;q=0, *"}}
          /\ inner \in SimpleProbes
       \/ \* family B: the response side - every inner response x every Accept-Encoding
          /\ cfg \in {Cfg("default", FALSE, lv, ml) : lv \in LevelsB, ml \in MinLens}
          /\ path = "/a.txt"
          /\ ae \in AEs
          /\ inner \in {x \in ProbesB : OKProbe(x)}
       \/ \* family C: the static file server with every set of precompressed siblings
          /\ cfg \in {Cfg("default", FALSE, lv, ml) : lv \in LevelsA, ml \in MinLens}
          /\ path = "/s.txt"
          /\ ae \in AEs
          /\ inner \in {Static(s) : s \in SibSeqs}
       \/ \* family C': the hidden file with siblings
          /\ cfg \in {Cfg("default", FALSE, lv, ml) : lv \in LevelsA, ml \in MinLens}
          /\ path = "/hid.txt"
          /\ ae \in AEs
          /\ inner = HiddenStatic
    /\ pc = "req" /\ opi = 1 /\ engaged = FALSE /\ decided = FALSE /\ compress = FALSE
    /\ hdr = NoHdr /\ sent = FALSE /\ wire = NoHdr /\ raw = 0 /\ gzin = 0 /\ gzopen = FALSE /\ closed = FALSE

\* Gzip.ServeHTTP up to the call of the next handler
RequestFilters ==
    /\ pc = "req"
    /\ engaged' = (AcceptsGzip(ae) /\ ~(cfg.not /\ UnderX(path)) /\ ExtOK(cfg, path))
    /\ pc' = "hdrs"
    /\ UNCHANGED <<cfg, path, ae, inner, opi, decided, compress, hdr, sent, wire, raw, gzin, gzopen, closed>>

\* the inner handler sets its headers
InnerHeaders ==
    /\ pc = "hdrs"
    /\ LET pre == IF inner.kind = "static" THEN StaticCE(inner, ae) ELSE inner.pre IN
       hdr' = [ce |-> pre, cl |-> inner.cl, etag |-> inner.etag, vary |-> (inner.kind = "static" /\ pre # "none")]
    /\ pc' = IF inner.explicit THEN "status" ELSE "ops"
    /\ UNCHANGED <<cfg, path, ae, inner, opi, engaged, decided, compress, sent, wire, raw, gzin, gzopen, closed>>

\* response filters
SkipOK(ce) == IF Repaired THEN ce \in {"none", "identity"}
              ELSE ce \notin {"gzip", "compress", "deflate", "br"}          \* no zstd
LenOK == cfg.minlen = 0 \/ (hdr.cl /\ Total(inner.ops) # 0 /\ Total(inner.ops) >= cfg.minlen)
Weak(e) == IF e = "strong" THEN "weak" ELSE e

\* header time: ResponseFilterWriter.WriteHeader (+ gzipResponseWriter.WriteHeader)
Decide ==
    /\ decided' = TRUE
    /\ compress' = (engaged /\ SkipOK(hdr.ce) /\ LenOK)
    /\ hdr' = IF compress' THEN [ce |-> "gzip", cl |-> FALSE, etag |-> Weak(hdr.etag), vary |-> TRUE] ELSE hdr
    /\ gzopen' = compress'
    /\ wire' = IF sent THEN wire ELSE hdr'
    /\ sent' = TRUE
Undecided == UNCHANGED <<decided, compress, hdr, gzopen, wire, sent>>

DoStatus ==
    /\ pc = "status"
    /\ Decide
    /\ pc' = "ops"
    /\ UNCHANGED <<cfg, path, ae, inner, opi, engaged, raw, gzin, closed>>

CurOp == inner.ops[opi]

DoWrite ==
    /\ pc = "ops" /\ opi <= Len(inner.ops) /\ CurOp \in {"wL", "wS", "w0", "wX"}
    /\ IF decided THEN Undecided ELSE Decide
    /\ IF ~BodyAllowed(inner.status) THEN UNCHANGED <<raw, gzin>>          \* net/http: ErrBodyNotAllowed
       ELSE IF compress' THEN gzin' = gzin + Bytes(CurOp) /\ UNCHANGED raw
       ELSE raw' = raw + Bytes(CurOp) /\ UNCHANGED gzin
    /\ opi' = opi + 1
    /\ UNCHANGED <<cfg, path, ae, inner, pc, engaged, closed>>

DoFlush ==
    /\ pc = "ops" /\ opi <= Len(inner.ops) /\ CurOp = "f"
    /\ IF decided THEN Undecided
       ELSE IF Repaired \/ ~engaged THEN Decide                  \* Flush is header time, too
       ELSE /\ wire' = (IF sent THEN wire ELSE hdr) /\ sent' = TRUE   \* old code: straight to the client, nothing decided
            /\ UNCHANGED <<decided, compress, hdr, gzopen>>
    /\ opi' = opi + 1
    /\ UNCHANGED <<cfg, path, ae, inner, pc, engaged, raw, gzin, closed>>

\* a WriteHeader call: the first one is header time; a later one changes nothing (the code before the
\* repair made the decision again, saw the Content-Encoding it had set itself and went on uncompressed)
DoHeaderAgain ==
    /\ pc = "ops" /\ opi <= Len(inner.ops) /\ CurOp = "h"
    /\ IF ~decided THEN Decide
       ELSE IF Repaired THEN Undecided
       ELSE compress' = FALSE /\ UNCHANGED <<decided, hdr, gzopen, wire, sent>>
    /\ opi' = opi + 1
    /\ UNCHANGED <<cfg, path, ae, inner, pc, engaged, raw, gzin, closed>>

DoInfo ==
    /\ pc = "ops" /\ opi <= Len(inner.ops) /\ CurOp = "i"
    /\ opi' = opi + 1
    /\ UNCHANGED <<cfg, path, ae, inner, pc, engaged, decided, compress, hdr, gzopen, wire, sent, raw, gzin, closed>>

\* the handler returns: the server commits the headers if nobody did; deferred putWriter closes the stream
Finish ==
    /\ pc = "ops" /\ opi > Len(inner.ops)
    /\ wire' = IF sent THEN wire ELSE hdr
    /\ sent' = TRUE
    /\ closed' = gzopen
    /\ pc' = "done"
    /\ UNCHANGED <<cfg, path, ae, inner, opi, engaged, decided, compress, hdr, raw, gzin, gzopen>>

Next == RequestFilters \/ InnerHeaders \/ DoStatus \/ DoWrite \/ DoFlush \/ DoHeaderAgain \/ DoInfo \/ Finish
Spec == Init /\ [][Next]_vars /\ WF_vars(Next)

\* ---- declarative properties (the statement, clause by clause) ------------------------
Done == pc = "done"
Body == BodyAllowed(inner.status)
InnerPre == IF inner.kind = "static" THEN StaticCE(inner, ae) ELSE inner.pre
Coding(c) == IF c \in {"none", "identity"} THEN <<>> ELSE <<c>>
\* codings really applied to the bytes on the wire, in order
Applied == Coding(InnerPre) \o (IF gzin > 0 \/ closed THEN <<"gzip">> ELSE <<>>)
Label == Coding(wire.ce)

CENamesAppliedCodings == (Done /\ Body) => Label = Applied
NoDoubleEncoding      == Done => Len(Applied) <= 1
\* decoding the wire body by its label gives the handler's bytes: one stream, complete, all bytes in it
DecodedEqualsIdentity == (Done /\ Body) =>
    /\ raw = 0 \/ gzin = 0
    /\ gzopen => closed
    /\ raw + gzin = Total(inner.ops)
    /\ Label = Applied
CLAbsentOrCorrect     == (Done /\ Body) => (wire.cl => (~gzopen /\ raw = Total(inner.ops)))
IdentityIfNotOffered  == (Done /\ ~OffersGzip(ae)) => (~gzopen /\ Label = Coding(InnerPre))
\* beyond the statement (checked on the model only): a compressed variant never keeps a strong validator
WeakETagWhenCompressed == (Done /\ gzopen) => wire.etag # "strong"
Terminates == <>Done

\* ---- case emission ----------------------------------------------------------
Emit == Done =>
    PrintT(<<"CASE", ToJson([cfg |-> cfg, path |-> path, ae |-> ae.text, inner |-> inner,
                             model |-> [engaged |-> engaged, compress |-> gzopen]])>>)
=============================================================================
