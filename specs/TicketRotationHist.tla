-------------------------- MODULE TicketRotationHist --------------------------
(* Emission of the start / restart / stop histories the end-to-end part of the   *)
(* TicketRotation check executes (thorough tier): the controller of               *)
(* TicketRotation.tla alone (NEXT NextCtl), one CASE per history.  A module of    *)
(* its own only because the driver keeps one case file per module name.           *)
EXTENDS TicketRotation
=============================================================================
