\* thorough: every site of one and two lines (full / reduced battery), one in Sample3 of the three-line sites, every
\* enumerated Link value on the two link sites
CONSTANT MaxLines = 3
CONSTANT Sample2 = 1
CONSTANT Sample3 = 60
CONSTANT LinkOneIn = 1
CONSTANT FIX_MARKER = TRUE
CONSTANT FIX_BAREMERGE = TRUE
CONSTANT FIX_REMOTECASE = TRUE
SPECIFICATION Spec
INVARIANT TypeOK
INVARIANT SetupRejectsIffInvalid
INVARIANT RulesAsWritten
INVARIANT PushedSetExact
INVARIANT RulePushesBeforeNext
INVARIANT NoPushWhenUnsupported
INVARIANT MainResponseUnaltered
INVARIANT LinkSemantics
INVARIANT PushErrorsContained
INVARIANT ClientCannotSuppressOrForge
INVARIANT GuardMarkerArrives
INVARIANT NoPushOnPushed
INVARIANT NoStuck
INVARIANT Emit
PROPERTY SiteFrozenWhileServing
PROPERTY CallsOnlyGrow
PROPERTY ResponseOnlyByNext
PROPERTY LoopsInOrder
PROPERTY RulePhaseFirst
CHECK_DEADLOCK FALSE
