CONSTANT MaxFmt = 5
CONSTANT Values <- AdvValues
SPECIFICATION Spec
INVARIANT SinglePass
INVARIANT MatchesGrammar
INVARIANT Emit
PROPERTY Total
