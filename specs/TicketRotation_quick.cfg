CONSTANTS MaxSrv = 1
 Caps = {1, 2, 4}
 MaxTicks = 5
 MaxOps = 0
 Repaired = TRUE
 Sync = FALSE
SPECIFICATION SpecRot
INVARIANTS TypeOK NonEmpty CapBound FirstIsNewest Lifetime NewerKeysExist NoReuse NoSetAfterClose TickerStopped Growth
PROPERTIES ClosedLeadsToDone
CHECK_DEADLOCK FALSE
