CONSTANTS
  PairSet <- PairsQuick
  BodyLens <- BodiesQuick
  MaxPairs = 2
  MaxChunks = 3
  MaxErr = 1
INIT InitEmit
NEXT Stop
INVARIANT Emit
CHECK_DEADLOCK FALSE
