----------------------------- MODULE AuthRules -----------------------------
(***************************************************************************)
(* basicauth with a LIST of rules, each protecting several resources       *)
(* (caskethttp/basicauth/basicauth.go, BasicAuth.ServeHTTP), loop by loop. *)
(* Protect.tla (C03) has one rule with one resource; this module models    *)
(* what the middleware does when several rules / resources cover a path:   *)
(*                                                                         *)
(*   OPTIONS                       -> Next, no check         OptionsBypass *)
(*   ruleLoop: for rule in Rules                             EnterLoop     *)
(*     for res in rule.Resources                             ResLoopEnd    *)
(*       !Path.Matches(res)          -> next resource        ResNoMatch    *)
(*       some rule.Exclude matches   -> continue ruleLoop    ResExcluded   *)
(*       protected = true; realm = rule.Realm; username, password, ok =    *)
(*       r.BasicAuth()                                                     *)
(*       !ok || username != rule.Username || !rule.Password(password)      *)
(*                                   -> next resource        CredsRejected *)
(*       isAuthenticated = true; {user} = username (+ RemoteUser context)  *)
(*                                                           CredsAccepted *)
(*   protected && !isAuthenticated -> 401, WWW-Authenticate: Basic         *)
(*       realm="<realm or Restricted>", {user} = username    Reject        *)
(*   else Next                                               Pass          *)
(*                                                                         *)
(* So: a request is checked against EVERY rule that protects its path; it  *)
(* passes when ANY of them accepts the credentials (the idiom for several  *)
(* users on one resource), and an unprotected path passes unchecked.  The  *)
(* realm of the 401 is the realm of the LAST protecting rule (the code's   *)
(* choice; the guarantee below only says "of a rule that rejected").       *)
(* Paths are PathMatch paths: byte prefix (/dx is under /d), case folded,  *)
(* cleaned.                                                                *)
(***************************************************************************)
EXTENDS Integers, Sequences, FiniteSets, TLC, Json, PathMatch

CONSTANTS MaxRules,    \* rules per site (1..3)
          ResSets,     \* possible Resources lists of a rule (sequences of path ids)
          ExSets,      \* possible Exclude lists
          RuleCreds,   \* possible <<Username, password>> of a rule
          ManyRealms,  \* FALSE: realms R1 | "" or R2 | R3 by position; TRUE: "" or Ri at every position
          ReqPaths,    \* request path ids
          ReqCreds,    \* credentials a client presents
          ReqMethods

PP(id) == CASE id = "d"    -> Rooted(<<"d">>)
            [] id = "dg"   -> Rooted(<<"d", "g">>)
            [] id = "e"    -> Rooted(<<"e">>)
            [] id = "dgs"  -> Rooted(<<"d", "g", "s">>)
            [] id = "ds"   -> Rooted(<<"d", "s">>)
            [] id = "dx"   -> Rooted(<<"dx">>)                      \* under /d by byte prefix
            [] id = "s"    -> Rooted(<<"s">>)                       \* never protected
            [] id = "Dg"   -> Rooted(<<"D", "g">>)                  \* case folded
            [] id = "trav" -> Rooted(<<"nx", "..", "d", "g">>)      \* cleaned

\* Path(p).Matches(b) for all path ids, computed once (a constant of the module)
PathIds == {"d", "dg", "e", "dgs", "ds", "dx", "s", "Dg", "trav"}
MatchTab == [p \in PathIds, b \in PathIds |-> Matches(PP(p), PP(b))]
M(p, b) == MatchTab[p, b]
ASSUME M("dx", "d") /\ M("Dg", "dg") /\ M("trav", "dg") /\ ~M("d", "dg") /\ ~M("s", "d") /\ M("dgs", "dg")

\* credentials: kind none (no Authorization header), garbage (not Basic / not base64), basic
NoCreds  == [kind |-> "none", user |-> "", pw |-> ""]
Garbage  == [kind |-> "garbage", user |-> "", pw |-> ""]
Basic(u, p) == [kind |-> "basic", user |-> u, pw |-> p]
\* r.BasicAuth()
ParsedOK(cr)   == cr.kind = "basic"
ParsedUser(cr) == IF cr.kind = "basic" THEN cr.user ELSE ""

RealmOpts(i) == IF ManyRealms THEN {"", CASE i = 1 -> "R1" [] i = 2 -> "R2" [] OTHER -> "R3"}
                ELSE CASE i = 1 -> {"R1"} [] i = 2 -> {"", "R2"} [] OTHER -> {"R3"}
RulesAt(i) == {[user |-> cr[1], pw |-> cr[2], res |-> r, ex |-> x, realm |-> rl] :
                  cr \in RuleCreds, r \in ResSets, x \in ExSets, rl \in RealmOpts(i)}

VARIABLES rules,      \* the site's rule list, in Casketfile order
          rq,         \* path id, creds, method
          pc, ri, si,
          protected, isAuth, realm, uname,   \* the locals of ServeHTTP
          user,       \* the {user} placeholder (customReplacements["user"]), "-" while unset
          www         \* realm sent in WWW-Authenticate ("-" = no such header)
vars == <<rules, rq, pc, ri, si, protected, isAuth, realm, uname, user, www>>
Unset == "-"

Init == /\ rules = <<>> /\ rq = [path |-> Unset, creds |-> NoCreds, method |-> Unset]
        /\ pc = "config" /\ ri = 1 /\ si = 1
        /\ protected = FALSE /\ isAuth = FALSE /\ realm = "" /\ uname = "" /\ user = Unset /\ www = Unset

\* the Casketfile: one more basicauth directive
AddRule == /\ pc = "config" /\ Len(rules) < MaxRules
           /\ \E r \in RulesAt(Len(rules) + 1) : rules' = Append(rules, r)
           /\ UNCHANGED <<rq, pc, ri, si, protected, isAuth, realm, uname, user, www>>
\* a client request
Request == /\ pc = "config" /\ rules # <<>>
           /\ \E p \in ReqPaths, cr \in ReqCreds, m \in ReqMethods :
                 /\ m = "OPTIONS" => cr = NoCreds           \* nothing looks at the credentials of an OPTIONS request
                 /\ rq' = [path |-> p, creds |-> cr, method |-> m]
           /\ pc' = "start"
           /\ UNCHANGED <<rules, ri, si, protected, isAuth, realm, uname, user, www>>

OptionsBypass == /\ pc = "start" /\ rq.method = "OPTIONS"
                 /\ pc' = "passed"
                 /\ UNCHANGED <<rules, rq, ri, si, protected, isAuth, realm, uname, user, www>>
EnterLoop == /\ pc = "start" /\ rq.method # "OPTIONS"
             /\ pc' = "loop" /\ ri' = 1 /\ si' = 1
             /\ UNCHANGED <<rules, rq, protected, isAuth, realm, uname, user, www>>

InRule == pc = "loop" /\ ri <= Len(rules)
AtRes  == InRule /\ si <= Len(rules[ri].res)
Rule   == rules[ri]
HereMatches  == M(rq.path, Rule.res[si])
HereExcluded == \E j \in 1..Len(Rule.ex) : M(rq.path, Rule.ex[j])
HereValid    == ParsedOK(rq.creds) /\ ParsedUser(rq.creds) = Rule.user /\ rq.creds.pw = Rule.pw

ResNoMatch == /\ AtRes /\ ~HereMatches
              /\ si' = si + 1
              /\ UNCHANGED <<rules, rq, pc, ri, protected, isAuth, realm, uname, user, www>>
\* continue ruleLoop: the remaining resources of this rule are skipped
ResExcluded == /\ AtRes /\ HereMatches /\ HereExcluded
               /\ ri' = ri + 1 /\ si' = 1
               /\ UNCHANGED <<rules, rq, pc, protected, isAuth, realm, uname, user, www>>
CredsRejected == /\ AtRes /\ HereMatches /\ ~HereExcluded /\ ~HereValid
                 /\ protected' = TRUE /\ realm' = Rule.realm /\ uname' = ParsedUser(rq.creds)
                 /\ si' = si + 1
                 /\ UNCHANGED <<rules, rq, pc, ri, isAuth, user, www>>
CredsAccepted == /\ AtRes /\ HereMatches /\ ~HereExcluded /\ HereValid
                 /\ protected' = TRUE /\ realm' = Rule.realm /\ uname' = ParsedUser(rq.creds)
                 /\ isAuth' = TRUE /\ user' = ParsedUser(rq.creds)
                 /\ si' = si + 1
                 /\ UNCHANGED <<rules, rq, pc, ri, www>>
ResLoopEnd == /\ InRule /\ si > Len(Rule.res)
              /\ ri' = ri + 1 /\ si' = 1
              /\ UNCHANGED <<rules, rq, pc, protected, isAuth, realm, uname, user, www>>
Reject == /\ pc = "loop" /\ ri > Len(rules) /\ protected /\ ~isAuth
          /\ www' = (IF realm = "" THEN "Restricted" ELSE realm)
          /\ user' = uname
          /\ pc' = "rejected"
          /\ UNCHANGED <<rules, rq, ri, si, protected, isAuth, realm, uname>>
Pass == /\ pc = "loop" /\ ri > Len(rules) /\ ~(protected /\ ~isAuth)
        /\ pc' = "passed"
        /\ UNCHANGED <<rules, rq, ri, si, protected, isAuth, realm, uname, user, www>>

Next == AddRule \/ Request \/ OptionsBypass \/ EnterLoop \/ ResNoMatch \/ ResExcluded \/ CredsRejected
        \/ CredsAccepted \/ ResLoopEnd \/ Reject \/ Pass
Spec == Init /\ [][Next]_vars /\ WF_vars(OptionsBypass \/ EnterLoop \/ ResNoMatch \/ ResExcluded \/ CredsRejected
                                         \/ CredsAccepted \/ ResLoopEnd \/ Reject \/ Pass)

\* ---- the guarantees, stated on the rule list (not on the loops) --------------------------------
Protects(r, p) == /\ \E i \in 1..Len(r.res) : M(p, r.res[i])
                  /\ ~ \E j \in 1..Len(r.ex) : M(p, r.ex[j])
Accepts(r, cr) == cr.kind = "basic" /\ cr.user = r.user /\ cr.pw = r.pw
Protecting == {i \in 1..Len(rules) : Protects(rules[i], rq.path)}
Decided == pc \in {"passed", "rejected"}
RealmOf(r) == IF r.realm = "" THEN "Restricted" ELSE r.realm

\* a request that reaches a protected resource presented credentials valid for a rule protecting it
ReachedOnlyWithValidCreds ==
    (pc = "passed" /\ rq.method # "OPTIONS" /\ Protecting # {}) => \E i \in Protecting : Accepts(rules[i], rq.creds)
\* ... and such credentials are enough, whatever the other rules say (several users on one resource)
ValidCredsPass ==
    (Decided /\ \E i \in Protecting : Accepts(rules[i], rq.creds)) => pc = "passed"
UnprotectedPasses == (Decided /\ Protecting = {}) => (pc = "passed" /\ www = Unset /\ user = Unset)
\* the challenge names the realm of a rule that protects the path and rejected the credentials
RealmOfARejectingRule ==
    pc = "rejected" => \E i \in Protecting : ~Accepts(rules[i], rq.creds) /\ www = RealmOf(rules[i])
NoChallengeOnPass == pc = "passed" => www = Unset
\* {user}: the presented name, which is the Username of an accepting rule
UserPlaceholder ==
    /\ (pc = "passed" /\ isAuth) => (user = rq.creds.user /\ \E i \in Protecting : rules[i].user = user /\ Accepts(rules[i], rq.creds))
    /\ (pc = "passed" /\ ~isAuth) => user = Unset
    /\ pc = "rejected" => user = ParsedUser(rq.creds)
\* the locals mean what their names say, at every step of the loops
LocalsMeanWhatTheySay ==
    pc \in {"loop", "passed", "rejected"} =>
        /\ protected => Protecting # {}
        /\ isAuth => \E i \in Protecting : Accepts(rules[i], rq.creds)
        /\ (pc # "loop" /\ rq.method # "OPTIONS") => (protected <=> Protecting # {})
\* an accepting rule is never overruled by a later one (action property)
AuthSticks == [][isAuth => isAuth']_vars
Terminates == (pc = "start") ~> Decided

\* ---- case emission: one CASE per decided request ----------------------------------------------
Emit == Decided =>
    PrintT(<<"CASE", ToJson([rules |-> rules, path |-> rq.path, creds |-> rq.creds, method |-> rq.method,
                             pass |-> pc = "passed", www |-> www, user |-> user,
                             protecting |-> {i - 1 : i \in Protecting},
                             accepting |-> {i - 1 : i \in {j \in Protecting : Accepts(rules[j], rq.creds)}}])>>)

\* ---- constant sets for the cfgs -----------------------------------------------------------------
QuickRes    == {<<"d">>, <<"dg">>, <<"e", "dg">>}
ThoroughRes == {<<"d">>, <<"dg">>, <<"e", "dg">>, <<"d", "dg">>}
QuickEx     == {<<>>, <<"dg">>}
ThoroughEx  == {<<>>, <<"dg">>, <<"e", "ds">>}
QuickRuleCreds    == {<<"u1", "p1">>, <<"u2", "p2">>}
ThoroughRuleCreds == {<<"u1", "p1">>, <<"u2", "p2">>, <<"u1", "p2">>}
QuickPaths    == {"d", "dg", "dx", "e", "s"}
ThoroughPaths == {"d", "dg", "dgs", "ds", "dx", "e", "s", "Dg", "trav"}
QuickReqCreds    == {NoCreds, Basic("u1", "p1"), Basic("u2", "p2"), Basic("u1", "p2")}
ThoroughReqCreds == {NoCreds, Garbage, Basic("u1", "p1"), Basic("u2", "p2"), Basic("u1", "p2"), Basic("u2", "p1"), Basic("", "")}
=============================================================================
