------------------------------ MODULE Residue ------------------------------
(***************************************************************************)
(* C08 - a failed load, validation or reload leaves nothing behind.        *)
(*                                                                         *)
(* Process-global state that an attempt touches: the listening sockets of  *)
(* the process, the event-hook registry, the instance list, the htpasswd   *)
(* mutex, and the running (base) site.  An attempt runs the stages of      *)
(* ValidateAndExecuteDirectives / startWithListenerFds / Restart in order  *)
(* (parse, directive setup in the fixed directive order, startup callback, *)
(* listeners one by one) and fails at the stage its configuration kind     *)
(* dictates; the failure path undoes what the stages did.                  *)
(* A history is a sequence of attempts followed by a valid start.          *)
(***************************************************************************)
EXTENDS Naturals, Sequences, FiniteSets, TLC, Json

CONSTANTS MaxAttempts

\* reload = Instance.Restart through the API; sigreload = the SIGUSR1 handler: it purges the event
\* hooks before the restart (the new configuration registers its own) and restores them if it fails
Surfaces == {"validate", "start", "reload", "sigreload"}
\* configuration kinds and the stage at which they fail
ParseFail == {"syntax", "import_missing"}
EarlySetupFail == {"badarg_timeouts", "badarg_tls"}                     \* directives before 'on'
\* (setup_panic: a directive's setup function panics; Restart recovers it - only on the reload surfaces)
LateSetupFail == {"unknown_directive_arg", "badarg_gzip", "badarg_proxy", "htpasswd_missing",
                  "htpasswd_malformed", "badarg_errors", "setup_panic"} \* directives after 'on'
StartupFail == {"failstartup", "log_unwritable"}
\* listen_busy: the second site's TCP port is held by somebody else; listen_busy_udp: QUIC is on and the
\* UDP port of the first (TLS) site is held - its TCP listener has been obtained by then
ListenFail == {"listen_busy", "listen_busy_udp"}
\* loader_fail: the Casketfile loader of a SIGUSR1 reload cannot produce the file (it is unreadable):
\* the handler gives up before it has touched anything
LoadFail == {"loader_fail"}
Kinds == {"ok"} \cup ParseFail \cup EarlySetupFail \cup LateSetupFail \cup StartupFail \cup ListenFail \cup LoadFail
UsesHtpasswd == {"htpasswd_missing", "htpasswd_malformed"}

Attempts == {a \in {[s |-> s, k |-> kd] : s \in Surfaces, kd \in Kinds} :
                /\ (a.k = "loader_fail" => a.s = "sigreload")
                /\ (a.k = "setup_panic" => a.s \in {"reload", "sigreload"})}

VARIABLES
    hist,     \* attempts made so far
    pc,       \* "idle" | "parse" | "early" | "on" | "late" | "startup" | "listen1" | "listen2" | "commit" | "fail" | "ret"
    att,      \* the attempt in progress
    bound,    \* listening sockets of the process: subset of {"base", "n1", "n2"}
    hooks,    \* number of registered event hooks
    insts,    \* number of instances in the instance list
    htlock,   \* "free" | "held"
    basegen,  \* generation of the configuration the base site answers with
    snap,     \* the globals when the attempt was called
    res,      \* result of the last attempt: "none" | "ok" | "err"
    extra     \* TRUE while a successfully started second instance is running (until Cleanup)
vars == <<hist, pc, att, bound, hooks, insts, htlock, basegen, snap, res, extra>>

Globals == [bound |-> bound, hooks |-> hooks, insts |-> insts, htlock |-> htlock, basegen |-> basegen]
NoAtt == [s |-> "validate", k |-> "ok"]

Init ==
    /\ hist = <<>> /\ pc = "idle" /\ att = NoAtt
    /\ bound = {"base"} /\ hooks = 1 /\ insts = 1 /\ htlock = "free" /\ basegen = 1
    /\ snap = [bound |-> {"base"}, hooks |-> 1, insts |-> 1, htlock |-> "free", basegen |-> 1]
    /\ res = "none" /\ extra = FALSE

Call(a) ==
    /\ pc = "idle" /\ ~extra /\ Len(hist) < MaxAttempts
    /\ hist' = Append(hist, a) /\ att' = a
    /\ snap' = Globals
    \* Start / Restart put the new instance into the instance list first
    /\ insts' = IF a.s = "validate" \/ a.k \in LoadFail THEN insts ELSE insts + 1
    /\ hooks' = IF a.s = "sigreload" /\ a.k \notin LoadFail THEN 0 ELSE hooks      \* purged once the file is there
    /\ pc' = (IF a.k \in LoadFail THEN "fail" ELSE "parse") /\ res' = "none"
    /\ UNCHANGED <<bound, htlock, basegen, extra>>

Parse ==
    /\ pc = "parse"
    /\ pc' = IF att.k \in ParseFail THEN "fail" ELSE "early"
    /\ UNCHANGED <<hist, att, bound, hooks, insts, htlock, basegen, snap, res, extra>>

\* directives ahead of 'on' in the directive order (root, bind, timeouts, tls ...)
EarlySetup ==
    /\ pc = "early"
    /\ pc' = IF att.k \in EarlySetupFail THEN "fail" ELSE "on"
    /\ UNCHANGED <<hist, att, bound, hooks, insts, htlock, basegen, snap, res, extra>>

\* the 'on' directive registers its event hook in the process-wide registry
OnSetup ==
    /\ pc = "on"
    /\ hooks' = hooks + 1
    /\ pc' = "late"
    /\ UNCHANGED <<hist, att, bound, insts, htlock, basegen, snap, res, extra>>

\* the remaining directives; basicauth takes the htpasswd mutex while it loads the file
LateSetup ==
    /\ pc = "late"
    /\ htlock = "free"                  \* otherwise the load blocks forever
    /\ IF att.k \in LateSetupFail
         THEN pc' = "fail"
         ELSE pc' = (IF att.s = "validate" THEN "commit" ELSE "startup")
    /\ UNCHANGED <<hist, att, bound, hooks, insts, htlock, basegen, snap, res, extra>>

StartupCb ==
    /\ pc = "startup"
    /\ pc' = IF att.k \in StartupFail THEN "fail" ELSE "listen1"
    /\ UNCHANGED <<hist, att, bound, hooks, insts, htlock, basegen, snap, res, extra>>

\* first listener: the attempt's own address n1 (a reload also holds a copy of the base socket)
Listen1 ==
    /\ pc = "listen1"
    /\ bound' = bound \cup {"n1"}
    /\ pc' = "listen2"
    /\ UNCHANGED <<hist, att, hooks, insts, htlock, basegen, snap, res, extra>>

\* second listener: n2, or the address somebody else holds
Listen2 ==
    /\ pc = "listen2"
    /\ IF att.k \in ListenFail THEN pc' = "fail" /\ UNCHANGED bound
                              ELSE pc' = "commit" /\ bound' = bound \cup {"n2"}
    /\ UNCHANGED <<hist, att, hooks, insts, htlock, basegen, snap, res, extra>>

\* success: a validation restores the hooks; a start keeps its instance; a reload replaces the
\* base instance (old one stopped and spliced out, its own extra sockets closed)
Commit ==
    /\ pc = "commit"
    /\ CASE att.s = "validate" -> /\ hooks' = snap.hooks /\ UNCHANGED <<insts, basegen, extra, bound>>
         [] att.s = "start"    -> /\ extra' = TRUE /\ UNCHANGED <<hooks, insts, basegen, bound>>
         [] att.s \in {"reload", "sigreload"} -> /\ insts' = insts - 1 /\ basegen' = basegen + 1
                                  /\ bound' = {"base", "n1", "n2"}
                                  /\ UNCHANGED <<hooks, extra>>
    /\ pc' = "ret" /\ res' = "ok"
    /\ UNCHANGED <<hist, att, htlock, snap>>

\* failure: everything the stages did is undone
Fail ==
    /\ pc = "fail"
    /\ bound' = snap.bound /\ hooks' = snap.hooks /\ insts' = snap.insts /\ htlock' = "free"
    /\ pc' = "ret" /\ res' = "err"
    /\ UNCHANGED <<hist, att, basegen, snap, extra>>

Return ==
    /\ pc = "ret"
    /\ pc' = "idle"
    /\ UNCHANGED <<hist, att, bound, hooks, insts, htlock, basegen, snap, res, extra>>

\* the driver stops a successfully started second instance again (its hooks stay registered:
\* nothing unregisters event hooks of a stopped instance)
Cleanup ==
    /\ pc = "idle" /\ extra
    /\ extra' = FALSE /\ insts' = insts - 1 /\ bound' = bound \ {"n1", "n2"}
    /\ UNCHANGED <<hist, pc, att, hooks, htlock, basegen, snap, res>>

\* after a successful reload the base configuration owns n1, n2 as well; the driver reloads
\* back to a base-only configuration before the next attempt (a successful reload by itself)
Rebase ==
    /\ pc = "idle" /\ ~extra /\ bound # {"base"}
    /\ bound' = {"base"} /\ basegen' = basegen + 1 /\ hooks' = hooks + 1
    /\ UNCHANGED <<hist, pc, att, insts, htlock, snap, res, extra>>

Next == (\E a \in Attempts : bound = {"base"} /\ Call(a)) \/ Parse \/ EarlySetup \/ OnSetup \/ LateSetup \/ StartupCb
        \/ Listen1 \/ Listen2 \/ Commit \/ Fail \/ Return \/ Cleanup \/ Rebase
Spec == Init /\ [][Next]_vars /\ WF_vars(Next)

\* ---- properties ----------------------------------------------------------
\* a failed attempt leaves no additional listening sockets, the event hooks as they were, the
\* instance list as it was, the running site untouched, no lock held
NoResidue == (pc = "ret" /\ res = "err") => Globals = snap
\* a validation never changes anything, successful or not
ValidateChangesNothing == (pc = "ret" /\ att.s = "validate") => Globals = snap
\* no attempt ends with the htpasswd mutex held (the next load would never return)
LockFreeBetweenAttempts == pc \in {"idle", "ret"} => htlock = "free"
\* every attempt returns (bounded time)
AttemptReturns == (pc # "idle") ~> (pc = "idle")
\* the outcome depends only on the configuration, not on what failed before
\* (a validation runs neither startup callbacks nor listeners, so it accepts those kinds)
Accepts(a) == a.k = "ok" \/ (a.s = "validate" /\ a.k \in StartupFail \cup ListenFail)
OutcomeByKindOnly == pc = "ret" => (res = "ok") = Accepts(att)

\* ---- emission ------------------------------------------------------------
Emit == (pc = "idle" /\ ~extra /\ bound = {"base"} /\ Len(hist) = MaxAttempts) => PrintT(<<"CASE", ToJson([attempts |-> hist])>>)
=============================================================================
