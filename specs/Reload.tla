------------------------------- MODULE Reload -------------------------------
(***************************************************************************)
(* C07 - configuration reload under client load (Instance.Restart with    *)
(* the http server type).                                                  *)
(*                                                                         *)
(* A reload is a sequence of steps of the controller: Call, [StartupCb of  *)
(* the new instance], NewServing (the new instance's servers accept on the *)
(* inherited sockets), OldClosed (the old instance's listeners are closed),*)
(* [ShutdownCb of the old instance], Return(ok) - or Return(err) from any  *)
(* step before NewServing (parse, directive setup, startup callback,       *)
(* listen on a new address).  Clients open fresh connections at any time.  *)
(*                                                                         *)
(* acc[a] is the set of generations currently accepting on address a; a    *)
(* request remembers in "cands" every generation that was accepting on its *)
(* address at some time since it started (history variable = "exists a     *)
(* moment between start and end at which that generation accepted").       *)
(***************************************************************************)
EXTENDS Naturals, Sequences, FiniteSets, TLC

CONSTANTS MaxReloads,   \* reload attempts explored
          MaxReqs,      \* client requests explored
          Addrs         \* listen addresses, e.g. {"p1", "p2"}

Kinds == {"ok", "failparse", "failsetup", "failstartup", "faillisten"}
NoGen == 0

VARIABLES
    cur,      \* generation that is the current instance
    ports,    \* [gen -> set of addresses it serves]      (function with growing domain)
    acc,      \* [addr -> set of gens accepting]
    phase,    \* "idle" | "called" | "startupcb" | "newserving" | "oldclosed" | "shutdowncb"
    new,      \* generation being started by the reload in progress
    kind,     \* its kind
    nre,      \* number of reload attempts so far
    reqs,     \* [id -> [st : "open"|"done", a : addr, cands : set of gens, by : gen]]
    lastRet   \* result of the last returned reload: "none" | "ok" | "err"
vars == <<cur, ports, acc, phase, new, kind, nre, reqs, lastRet>>

Open == {i \in DOMAIN reqs : reqs[i].st = "open"}

Init ==
    /\ cur = 1
    /\ ports = (1 :> Addrs)          \* generation 1 serves every address
    /\ acc = [a \in Addrs |-> {1}]
    /\ phase = "idle" /\ new = NoGen /\ kind = "ok" /\ nre = 0
    /\ reqs = <<>>
    /\ lastRet = "none"

\* ---- helpers -------------------------------------------------------------
\* the accepting set of address a changes to S: open requests on a remember the newcomers
WithAcc(a, S) == [i \in DOMAIN reqs |-> IF reqs[i].st = "open" /\ reqs[i].a = a
                                         THEN [reqs[i] EXCEPT !.cands = @ \cup S] ELSE reqs[i]]
RECURSIVE FoldAcc(_, _, _)
FoldAcc(rs, as, S) == IF as = {} THEN rs
                      ELSE LET a == CHOOSE x \in as : TRUE
                           IN FoldAcc([i \in DOMAIN rs |-> IF rs[i].st = "open" /\ rs[i].a = a
                                                            THEN [rs[i] EXCEPT !.cands = @ \cup S] ELSE rs[i]],
                                      as \ {a}, S)

\* ---- the reload ----------------------------------------------------------
\* Restart is called with a new configuration of the given kind serving addresses ps
Call(kd, ps) ==
    /\ phase = "idle" /\ nre < MaxReloads
    /\ ps \subseteq Addrs /\ ps # {}
    /\ new' = cur + 1 + nre      \* fresh generation number (unique per attempt)
    /\ kind' = kd
    /\ ports' = ports @@ ((cur + 1 + nre) :> ps)
    /\ nre' = nre + 1
    /\ phase' = "called"
    /\ UNCHANGED <<cur, acc, reqs, lastRet>>

\* the new instance's OnStartup callbacks run (before it listens)
StartupCb ==
    /\ phase = "called" /\ kind \in {"ok", "failstartup", "faillisten"}
    /\ phase' = "startupcb"
    /\ UNCHANGED <<cur, ports, acc, new, kind, nre, reqs, lastRet>>

\* the new instance's servers are serving: they accept on every address of the new
\* configuration (inherited sockets for addresses the old one has, fresh ones otherwise)
NewServing ==
    /\ phase = "startupcb" /\ kind = "ok"
    /\ acc' = [a \in Addrs |-> IF a \in ports[new] THEN acc[a] \cup {new} ELSE acc[a]]
    /\ reqs' = FoldAcc(reqs, ports[new], {new})
    /\ phase' = "newserving"
    /\ UNCHANGED <<cur, ports, new, kind, nre, lastRet>>

\* the old instance's listeners are closed (http.Server.Shutdown closes them first)
OldClosed ==
    /\ phase = "newserving"
    /\ acc' = [a \in Addrs |-> acc[a] \ {cur}]
    /\ phase' = "oldclosed"
    /\ UNCHANGED <<cur, ports, new, kind, nre, reqs, lastRet>>

\* the old instance's OnShutdown callbacks run (after it has stopped)
ShutdownCb ==
    /\ phase = "oldclosed"
    /\ phase' = "shutdowncb"
    /\ UNCHANGED <<cur, ports, acc, new, kind, nre, reqs, lastRet>>

ReturnOk ==
    /\ phase = "shutdowncb"
    /\ cur' = new /\ new' = NoGen /\ phase' = "idle" /\ lastRet' = "ok"
    /\ UNCHANGED <<ports, acc, kind, nre, reqs>>

\* a failing reload returns an error; nothing of the new instance ever served
ReturnErr ==
    /\ phase \in {"called", "startupcb"} /\ kind # "ok"
    /\ (kind \in {"failstartup", "faillisten"} => phase = "startupcb")
    /\ (kind \in {"failparse", "failsetup"} => phase = "called")
    /\ new' = NoGen /\ phase' = "idle" /\ lastRet' = "err"
    /\ UNCHANGED <<cur, ports, acc, kind, nre, reqs>>

\* ---- clients -------------------------------------------------------------
\* a client opens a fresh connection to address a and sends a request
ReqStart(id, a) ==
    /\ id \notin DOMAIN reqs
    /\ reqs' = reqs @@ (id :> [st |-> "open", a |-> a, cands |-> acc[a], by |-> NoGen])
    /\ UNCHANGED <<cur, ports, acc, phase, new, kind, nre, lastRet>>

\* it receives the complete response, produced by generation m
ReqEnd(id, m) ==
    /\ id \in Open
    /\ m \in reqs[id].cands
    /\ reqs' = [reqs EXCEPT ![id].st = "done", ![id].by = m]
    /\ UNCHANGED <<cur, ports, acc, phase, new, kind, nre, lastRet>>

Next ==
    \/ \E kd \in Kinds, ps \in SUBSET Addrs : Call(kd, ps)
    \/ StartupCb \/ NewServing \/ OldClosed \/ ShutdownCb \/ ReturnOk \/ ReturnErr
    \/ \E id \in 1..MaxReqs, a \in Addrs : (id = Len(reqs) + 1 /\ a \in ports[cur] /\ (new # NoGen => a \in ports[new]) /\ ReqStart(id, a))
    \/ \E id \in DOMAIN reqs, m \in 1..(2 * MaxReloads + 1) : ReqEnd(id, m)
Spec == Init /\ [][Next]_vars /\ WF_vars(Next)

\* ---- properties ----------------------------------------------------------
\* the listening sockets are handed over, never closed and rebound: at every moment somebody
\* accepts on every address that the current configuration (and a new one in progress) serves
NeverRefused ==
    \A a \in Addrs : (a \in ports[cur] /\ (new # NoGen => a \in ports[new])) => acc[a] # {}

\* a response comes from the old or the new configuration: a generation that was accepting
\* on the request's address at some time during the request
OldOrNew == \A i \in DOMAIN reqs : reqs[i].st = "done" => reqs[i].by \in reqs[i].cands

\* once a reload has returned successfully only the new configuration accepts
AfterReturnNew == (phase = "idle" /\ lastRet = "ok") => \A a \in Addrs : acc[a] \subseteq {cur}

\* a failed reload leaves the previous configuration answering all of its addresses
FailedKeepsOld == (phase = "idle" /\ lastRet = "err") => \A a \in ports[cur] : acc[a] = {cur}

\* at most the old and the new generation accept at any time
AtMostTwo == \A a \in Addrs : Cardinality(acc[a]) <= 2 /\ acc[a] \subseteq {cur, new}

\* every request is eventually answered
Answered == \A id \in 1..MaxReqs : (id \in DOMAIN reqs) ~> (id \in DOMAIN reqs /\ reqs[id].st = "done")
=============================================================================
