----------------------------- MODULE Middleware -----------------------------
(***************************************************************************)
(* C12 / C20 - the handler contract of casket's middleware chain.          *)
(*                                                                         *)
(* One behaviour = one request travelling through one site:                *)
(*   Server.ServeHTTP -> limits -> request_id -> log -> rewrite -> gzip -> *)
(*   header -> errors -> basicauth -> status -> mime -> internal ->        *)
(*   templates -> probe (the innermost handler, any behaviour)             *)
(* which is the canonical directive order of httpserver/plugin.go.         *)
(*                                                                         *)
(* Operational part (code-shaped): Enter(p) / Exit(p) / Unwind(p) are what *)
(* the ServeHTTP of the layer at chain position p does before calling      *)
(* Next, after Next returned (status, err), and while a panic unwinds      *)
(* through it. Response writers are modelled as the stack of wrappers the  *)
(* layers really interpose (log: ResponseRecorder, gzip:                   *)
(* ResponseFilterWriter, header: responseWriterWrapper, internal,          *)
(* templates: ResponseBuffer): WH/WR are their WriteHeader/Write methods,  *)
(* level 1 is the connection (net/http).                                   *)
(*                                                                         *)
(* Declarative part: OneCommit, ErrorGetsBody, WrittenUnaltered,           *)
(* PanicIs500IfNothingWritten, ServerSurvives (C12), OneLinePerLog,        *)
(* StatusSizeMatchClient (C20) - predicates over (configuration, request,  *)
(* inner behaviour, outcome seen by the client / in the access log).       *)
(*                                                                         *)
(* The constants FIX_* select the repaired (TRUE) or the original (FALSE)  *)
(* design for the six defects found with this model (see notes/C12.md,    *)
(* notes/C20.md): with any of them FALSE, TLC refutes an invariant.        *)
(***************************************************************************)
EXTENDS Naturals, Sequences, FiniteSets, TLC, Json

CONSTANTS Optional,      \* the optional wrappers configurations range over
          EMIT,          \* TRUE: print one CASE line per terminal state
          FIX_VISIBLE,   \* errors.go: `errors visible` does not write when status = 0
          FIX_TPL,       \* templates.go: a buffered response is passed on when the handler returned (0, err)
          FIX_LOGPANIC,  \* log.go: a panic unwinding through log is answered and logged by log
          FIX_RECFIRST,  \* recorder.go: ResponseRecorder keeps the status of the first WriteHeader (the one net/http sends)
          FIX_GZONCE,    \* gzip/responsefilter.go: the compress-or-not decision is made with the first header only
          FIX_INFO       \* header.go, recorder.go (ResponseBuffer): an informational header (1xx) is not the response's header

Chain == << "server", "limits", "request_id", "log", "rewrite", "gzip", "header", "errors",
            "basicauth", "status", "mime", "internal", "templates", "probe" >>
N == Len(Chain)
Pos(n) == CHOOSE i \in 1..N : Chain[i] = n

AllOptional == {"limits", "request_id", "log", "rewrite", "gzip", "header", "basicauth", "status",
                "mime", "internal", "templates"}
ErrModes == {"none", "default", "page", "visible"}

ASSUME Optional \subseteq AllOptional

\* httpserver/plugin.go InspectServerBlocks: a site with gzip and without errors gets `errors`
EffErr(c) == IF c.errors = "none" /\ "gzip" \in c.on THEN "default" ELSE c.errors

Configs == [on : SUBSET Optional, errors : ErrModes]

\* request kinds: plain path, a path the templates rule buffers (.html), the two `status` rules;
\* gz = the client sent Accept-Encoding: gzip
Requests(c) ==
    [path : {"plain"} \cup (IF "templates" \in c.on THEN {"tpl"} ELSE {})
                      \cup (IF "status" \in c.on THEN {"st404", "st204"} ELSE {}),
     gz : IF "gzip" \in c.on THEN BOOLEAN ELSE {FALSE}]

\* behaviours of the innermost handler.  k = kind, s = status, e = returns an error,
\* x = (write) explicit WriteHeader before the body / (panicafter) Flush before the panic
Behaviours ==
    [k : {"ret"}, s : {0, 200, 204, 301, 404, 500}, e : BOOLEAN, x : {FALSE}]
    \cup {b \in [k : {"write"}, s : {200, 404}, e : BOOLEAN, x : BOOLEAN] : b.s = 200 \/ b.x}
    \* a handler that breaks the contract: it writes a 200 response and then returns an error status
    \* all the same (in tree: browse when an archive fails half-way).  C12 says nothing about what
    \* the client should get then; C20 still wants the log line to tell what the client got
    \cup [k : {"writeret"}, s : {500}, e : BOOLEAN, x : BOOLEAN]
    \* a handler that sends an informational header (103 Early Hints) before its response
    \cup [k : {"hintwrite"}, s : {200, 404}, e : {FALSE}, x : {TRUE}]
    \cup [k : {"panicbefore"}, s : {0}, e : {FALSE}, x : {FALSE}]
    \cup [k : {"panicafter"}, s : {200}, e : {FALSE}, x : BOOLEAN]
NoBeh == [k |-> "ret", s |-> 0, e |-> FALSE, x |-> FALSE]     \* probe not reached (status rule answers)

On(c, n) == n \in {"server", "probe"} \/ (n = "errors" /\ EffErr(c) # "none") \/ n \in c.on

\* ---- response writers ---------------------------------------------------------------
\* writer levels, outermost first; a layer at chain position p writes to the innermost
\* enabled level whose owner sits outside p.
WLayers == << "conn", "log", "gzip", "header", "internal", "templates" >>
WInit == [ commits |-> << >>,      \* status of every header commit that reached net/http
           sent    |-> 0,          \* status line the client gets (first commit); 0 = none yet
           sentCE  |-> FALSE,      \* Content-Encoding: gzip was in the header map at that moment
           body    |-> << >>,      \* body parts that reached the connection: [t |-> token, z |-> compressed]
           hdrCE   |-> FALSE,      \* header map currently has Content-Encoding: gzip
           recSt   |-> 200,        \* ResponseRecorder.status (original: the last WriteHeader wins; repaired: the first)
           recW    |-> FALSE,      \* ResponseRecorder has seen a WriteHeader or a Write
           recSz   |-> << >>,      \* ResponseRecorder.size, as the parts counted
           gzDecided |-> FALSE, gzComp |-> FALSE, gzHdrs |-> 0,   \* ResponseFilterWriter
           hw      |-> FALSE,      \* header.responseWriterWrapper.wroteHeader
           tbWrote |-> FALSE, tbStream |-> FALSE, tbSt |-> 200, tbBuf |-> << >> ]   \* ResponseBuffer

VARIABLES cfg, req, beh, dir, pos, ret, W, lines, errlog, pstep
vars == <<cfg, req, beh, dir, pos, ret, W, lines, errlog, pstep>>

WEnabled(k) ==
    CASE WLayers[k] = "conn" -> TRUE
      [] WLayers[k] = "gzip" -> "gzip" \in cfg.on /\ req.gz      \* Gzip.ServeHTTP wraps only then
      [] OTHER -> WLayers[k] \in cfg.on

NoBody(s) == s \in {204, 304}      \* net/http: Write returns ErrBodyNotAllowed

RECURSIVE WH(_, _, _)
\* WriteHeader(s) on the writer of level k
WH(w, k, s) ==
    IF ~WEnabled(k) THEN WH(w, k - 1, s)
    ELSE CASE WLayers[k] = "conn" ->
                [w EXCEPT !.commits = Append(@, s),
                          !.sent = IF w.sent = 0 THEN s ELSE @,
                          !.sentCE = IF w.sent = 0 THEN w.hdrCE ELSE @]
           [] WLayers[k] = "log" ->
                WH([w EXCEPT !.recSt = IF FIX_RECFIRST /\ w.recW THEN @ ELSE s, !.recW = TRUE], k - 1, s)
           [] WLayers[k] = "gzip" ->
                \* original: every call re-evaluates the filters, and SkipCompressedFilter says no once
                \* Content-Encoding is set (also by this writer's own first call): the rest of the body
                \* then goes out uncompressed.  Repaired: decided once, later calls are passed on
                IF FIX_GZONCE /\ w.gzDecided THEN WH([w EXCEPT !.gzHdrs = @ + 1], k - 1, s)
                ELSE LET comp == ~w.hdrCE IN
                     WH([w EXCEPT !.gzDecided = TRUE, !.gzComp = comp, !.gzHdrs = @ + 1,
                                  !.hdrCE = @ \/ comp], k - 1, s)
           [] WLayers[k] = "header" ->
                IF w.hw THEN w ELSE WH([w EXCEPT !.hw = TRUE], k - 1, s)
           [] WLayers[k] = "internal" -> WH(w, k - 1, s)
           [] WLayers[k] = "templates" ->
                IF w.tbWrote THEN w
                ELSE IF req.path = "tpl"      \* shouldBuf: the request's extension is a template extension
                     THEN [w EXCEPT !.tbWrote = TRUE, !.tbStream = FALSE, !.tbSt = s]
                     ELSE WH([w EXCEPT !.tbWrote = TRUE, !.tbStream = TRUE, !.tbSt = s], k - 1, s)

RECURSIVE WR(_, _, _)
\* Write(part t) on the writer of level k
WR(w, k, t) ==
    IF ~WEnabled(k) THEN WR(w, k - 1, t)
    ELSE CASE WLayers[k] = "conn" ->
                LET w1 == IF w.commits = << >> /\ w.sent = 0
                          THEN [w EXCEPT !.commits = <<200>>, !.sent = 200, !.sentCE = w.hdrCE]
                          ELSE IF w.sent = 0 THEN [w EXCEPT !.sent = 200, !.sentCE = w.hdrCE] ELSE w
                IN  IF NoBody(w1.sent) THEN w1 ELSE [w1 EXCEPT !.body = Append(@, t)]
           [] WLayers[k] = "log" ->
                LET w1 == WR([w EXCEPT !.recW = TRUE], k - 1, t) IN
                IF NoBody(w1.sent) THEN w1 ELSE [w1 EXCEPT !.recSz = Append(@, t)]
           [] WLayers[k] = "gzip" ->
                LET w1 == IF w.gzDecided THEN w ELSE WH(w, k, 200) IN
                WR(w1, k - 1, [t EXCEPT !.z = w1.gzComp])
           [] WLayers[k] = "header" ->
                LET w1 == IF w.hw THEN w ELSE WH(w, k, 200) IN WR(w1, k - 1, t)
           [] WLayers[k] = "internal" -> WR(w, k - 1, t)
           [] WLayers[k] = "templates" ->
                LET w1 == IF w.tbWrote THEN w ELSE WH(w, k, 200) IN
                IF w1.tbStream THEN WR(w1, k - 1, t) ELSE [w1 EXCEPT !.tbBuf = Append(@, t)]

\* http.Flusher.Flush: every wrapper forwards it untouched; net/http commits 200 if nothing was committed
FL(w) == IF w.sent = 0 THEN [w EXCEPT !.sent = 200, !.sentCE = w.hdrCE, !.commits = Append(@, 200)] ELSE w

Part(t) == [t |-> t, z |-> FALSE]
ETok(s) == IF s = 404 THEN "E404" ELSE IF s = 500 THEN "E500" ELSE "E"   \* DefaultErrorFunc text
\* WriteTextResponse / DefaultErrorFunc on level k
ErrText(w, k, s) == WR(WH(w, k, s), k, Part(ETok(s)))

\* the level a layer at chain position p was handed
LevelAt(p) == IF p <= Pos("log") THEN 1 ELSE IF p <= Pos("gzip") THEN 2 ELSE IF p <= Pos("header") THEN 3
              ELSE IF p <= Pos("internal") THEN 4 ELSE IF p <= Pos("templates") THEN 5 ELSE 6
OwnLevel(n) == CHOOSE k \in 1..Len(WLayers) : WLayers[k] = n
\* WriteHeader(103) on the writer of level 6: repaired, every wrapper passes it on untouched and net/http
\* sends it without committing anything.  Original: header's wrapper and the templates buffer took it
\* for the response's header (the real status was dropped later), the others passed it on
WHI(w) == IF FIX_INFO THEN w
          ELSE LET w1 == IF WEnabled(OwnLevel("templates")) /\ ~w.tbWrote
                         THEN [w EXCEPT !.tbWrote = TRUE, !.tbStream = (req.path # "tpl"), !.tbSt = 103] ELSE w
                   reaches == ~WEnabled(OwnLevel("templates")) \/ w1.tbStream
               IN  IF reaches /\ WEnabled(OwnLevel("header")) THEN [w1 EXCEPT !.hw = TRUE] ELSE w1


\* ---- control --------------------------------------------------------------------------
Inner(p) == CHOOSE q \in (p + 1)..N : On(cfg, Chain[q]) /\ \A r \in (p + 1)..(q - 1) : ~On(cfg, Chain[r])
Outer(p) == CHOOSE q \in 1..(p - 1) : On(cfg, Chain[q]) /\ \A r \in (q + 1)..(p - 1) : ~On(cfg, Chain[r])

Init ==
    /\ cfg \in Configs
    /\ req \in Requests(cfg)
    /\ beh \in IF req.path \in {"st404", "st204"} THEN {NoBeh} ELSE Behaviours
    /\ dir = "in" /\ pos = 1 /\ ret = [s |-> 0, e |-> FALSE]
    /\ W = WInit /\ lines = << >> /\ errlog = 0 /\ pstep = "start"

\* -- on the way in
EnterPass ==     \* server (recover installed), limits, request_id, log (recorder), rewrite, gzip, header,
                 \* errors (recover installed), basicauth (not protected), mime, internal, templates
    /\ dir = "in" /\ Chain[pos] \notin {"status", "probe"}
    /\ pos' = Inner(pos)
    /\ UNCHANGED <<cfg, req, beh, dir, ret, W, lines, errlog, pstep>>

EnterStatus ==   \* status.go: a matching rule answers itself
    /\ dir = "in" /\ Chain[pos] = "status"
    /\ CASE req.path = "st404" -> /\ ret' = [s |-> 404, e |-> FALSE] /\ dir' = "out" /\ pos' = Outer(pos) /\ W' = W
         [] req.path = "st204" -> /\ W' = WH(W, LevelAt(pos), 204)
                                  /\ ret' = [s |-> 0, e |-> FALSE] /\ dir' = "out" /\ pos' = Outer(pos)
         [] OTHER -> /\ pos' = Inner(pos) /\ UNCHANGED <<ret, dir, W>>
    /\ UNCHANGED <<cfg, req, beh, lines, errlog, pstep>>

\* -- the innermost handler (harness/probe/verifprobe.go), one action per call it makes
ProbeHeader ==
    /\ dir = "in" /\ Chain[pos] = "probe" /\ pstep = "start"
    /\ beh.k \in {"write", "panicafter", "writeret", "hintwrite"}
    /\ LET w0 == IF beh.k = "hintwrite" THEN WHI(W) ELSE W IN
       W' = IF beh.k = "panicafter" \/ beh.x THEN WH(w0, 6, IF beh.k = "writeret" THEN 200 ELSE beh.s) ELSE w0
    /\ pstep' = "body"
    /\ UNCHANGED <<cfg, req, beh, dir, pos, ret, lines, errlog>>
ProbeBody ==
    /\ dir = "in" /\ Chain[pos] = "probe" /\ pstep = "body"
    /\ W' = WR(W, 6, Part("B"))
    /\ pstep' = IF beh.k = "panicafter" /\ beh.x THEN "flush" ELSE "end"
    /\ UNCHANGED <<cfg, req, beh, dir, pos, ret, lines, errlog>>
ProbeFlush ==
    /\ dir = "in" /\ Chain[pos] = "probe" /\ pstep = "flush"
    /\ W' = FL(W)
    /\ pstep' = "end"
    /\ UNCHANGED <<cfg, req, beh, dir, pos, ret, lines, errlog>>
ProbeReturn ==
    /\ dir = "in" /\ Chain[pos] = "probe"
    /\ \/ beh.k = "ret" /\ pstep = "start" /\ ret' = [s |-> beh.s, e |-> beh.e]
       \/ beh.k \in {"write", "hintwrite"} /\ pstep = "end" /\ ret' = [s |-> 0, e |-> beh.e]
       \/ beh.k = "writeret" /\ pstep = "end" /\ ret' = [s |-> beh.s, e |-> beh.e]
    /\ dir' = "out" /\ pos' = Outer(pos)
    /\ UNCHANGED <<cfg, req, beh, W, lines, errlog, pstep>>
ProbePanic ==
    /\ dir = "in" /\ Chain[pos] = "probe"
    /\ \/ beh.k = "panicbefore" /\ pstep = "start"
       \/ beh.k = "panicafter" /\ pstep = "end"
    /\ dir' = "unwind" /\ pos' = Outer(pos)
    /\ UNCHANGED <<cfg, req, beh, ret, W, lines, errlog, pstep>>

\* -- on the way out: (status, err) = ret
ExitPass ==      \* limits, request_id, rewrite, header, basicauth, status, mime, internal: return unchanged
    /\ dir = "out" /\ Chain[pos] \in {"limits", "request_id", "rewrite", "header", "basicauth", "status", "mime", "internal"}
    /\ pos' = Outer(pos)
    /\ UNCHANGED <<cfg, req, beh, dir, ret, W, lines, errlog, pstep>>

\* templates.go: ServeHTTP after t.Next.ServeHTTP(rb, r)
TplBuffered == ~W.tbStream
RECURSIVE WriteAll(_, _, _)
WriteAll(w, k, parts) == IF parts = << >> THEN w ELSE WriteAll(WR(w, k, Head(parts)), k, Tail(parts))
ExitTemplates ==
    /\ dir = "out" /\ Chain[pos] = "templates"
    /\ LET lv == LevelAt(pos) IN
       IF ~TplBuffered \/ ret.s >= 300 \/ ret.e
       THEN /\ W' = IF FIX_TPL /\ TplBuffered /\ W.tbBuf # << >> /\ ret.s = 0
                    THEN WriteAll(WH(W, lv, W.tbSt), lv, W.tbBuf)     \* pass the handler's response on, unrendered
                    ELSE W                                             \* (original: the buffer is dropped)
            /\ ret' = ret
       ELSE \* parse + execute the buffered text, then http.ServeContent through the forced-status writer
            /\ W' = WriteAll(WH(W, lv, W.tbSt), lv, W.tbBuf)
            /\ ret' = [s |-> 0, e |-> FALSE]
    /\ pos' = Outer(pos)
    /\ UNCHANGED <<cfg, req, beh, dir, lines, errlog, pstep>>

\* errors.go: ErrorHandler.ServeHTTP after h.Next.ServeHTTP
PageTok(s) == IF s = 404 THEN "P404" ELSE "Pstar"
ErrorPage(w, k, s) == IF EffErr(cfg) = "page" THEN WR(WH(w, k, s), k, Part(PageTok(s))) ELSE ErrText(w, k, s)
ExitErrors ==
    /\ dir = "out" /\ Chain[pos] = "errors"
    /\ LET lv == LevelAt(pos)
           dbg == EffErr(cfg) = "visible" IN
       IF ret.e /\ dbg /\ (ret.s # 0 \/ ~FIX_VISIBLE)
       THEN \* the error text goes to the client (with status 0 the original calls WriteHeader(0):
            \* a superfluous commit after a written response, an invalid-code panic otherwise)
            IF ret.s = 0 /\ W.sent = 0
            THEN /\ dir' = "unwind" /\ UNCHANGED <<W, ret, errlog, pos>>        \* net/http panics: recovered right here
            ELSE /\ W' = WR(WH(W, lv, ret.s), lv, Part("V"))
                 /\ ret' = [s |-> 0, e |-> TRUE] /\ pos' = Outer(pos)
                 /\ UNCHANGED <<dir, errlog>>
       ELSE /\ errlog' = IF ret.e THEN errlog + 1 ELSE errlog
            /\ IF ret.s >= 400
                 THEN W' = ErrorPage(W, lv, ret.s) /\ ret' = [s |-> 0, e |-> ret.e]
                 ELSE UNCHANGED <<W, ret>>
            /\ pos' = Outer(pos) /\ UNCHANGED dir
    /\ UNCHANGED <<cfg, req, beh, lines, pstep>>

\* gzip.go: Gzip.ServeHTTP after g.Next.ServeHTTP(rw, r) (only when it wrapped the writer)
ExitGzip ==
    /\ dir = "out" /\ Chain[pos] = "gzip"
    /\ IF req.gz /\ ret.s >= 400
         THEN W' = ErrText(W, LevelAt(pos), ret.s) /\ ret' = [s |-> 0, e |-> ret.e]
         ELSE UNCHANGED <<W, ret>>
    /\ pos' = Outer(pos)
    /\ UNCHANGED <<cfg, req, beh, dir, lines, errlog, pstep>>

\* log.go: Logger.ServeHTTP after l.Next.ServeHTTP(responseRecorder, r)
LogLine(w) == [st |-> w.recSt, sz |-> w.recSz]
ExitLog ==
    /\ dir = "out" /\ Chain[pos] = "log"
    /\ LET w1 == IF ret.s >= 400 THEN ErrText(W, OwnLevel("log"), ret.s) ELSE W IN
       /\ W' = w1
       /\ lines' = Append(lines, LogLine(w1))
    /\ ret' = [s |-> IF ret.s >= 400 THEN 0 ELSE ret.s, e |-> ret.e]
    /\ pos' = Outer(pos)
    /\ UNCHANGED <<cfg, req, beh, dir, errlog, pstep>>

\* server.go: Server.ServeHTTP after s.serveHTTP
ExitServer ==
    /\ dir = "out" /\ Chain[pos] = "server"
    /\ W' = IF ret.s >= 400 THEN ErrText(W, 1, ret.s) ELSE W
    /\ dir' = "done"
    /\ UNCHANGED <<cfg, req, beh, pos, ret, lines, errlog, pstep>>

\* -- a panic unwinding
UnwindPass ==    \* no recover: deferred clean-up only (gzip closes its writer, templates returns the buffer)
    /\ dir = "unwind"
    /\ Chain[pos] \notin {"server", "errors"} /\ ~(Chain[pos] = "log" /\ FIX_LOGPANIC)
    /\ pos' = Outer(pos)
    /\ UNCHANGED <<cfg, req, beh, dir, ret, W, lines, errlog, pstep>>
UnwindErrors ==  \* errors.go recovery(): the function then returns the zero values (0, nil)
    /\ dir = "unwind" /\ Chain[pos] = "errors"
    /\ W' = IF EffErr(cfg) = "visible" THEN WR(WH(W, LevelAt(pos), 500), LevelAt(pos), Part("VP"))
                                       ELSE ErrorPage(W, LevelAt(pos), 500)
    /\ errlog' = IF EffErr(cfg) = "visible" THEN errlog ELSE errlog + 1
    /\ ret' = [s |-> 0, e |-> FALSE] /\ dir' = "out" /\ pos' = Outer(pos)
    /\ UNCHANGED <<cfg, req, beh, lines, pstep>>
UnwindLog ==     \* (FIX_LOGPANIC) log.go: the panic becomes (500, err) so that the answer is recorded and logged
    /\ dir = "unwind" /\ Chain[pos] = "log" /\ FIX_LOGPANIC
    /\ ret' = [s |-> 500, e |-> TRUE] /\ dir' = "out"
    /\ UNCHANGED <<cfg, req, beh, pos, W, lines, errlog, pstep>>
UnwindServer ==  \* server.go: last-resort recover
    /\ dir = "unwind" /\ Chain[pos] = "server"
    /\ W' = ErrText(W, 1, 500)
    /\ dir' = "done"
    /\ UNCHANGED <<cfg, req, beh, pos, ret, lines, errlog, pstep>>

Next == \/ EnterPass \/ EnterStatus
        \/ ProbeHeader \/ ProbeBody \/ ProbeFlush \/ ProbeReturn \/ ProbePanic
        \/ ExitPass \/ ExitTemplates \/ ExitErrors \/ ExitGzip \/ ExitLog \/ ExitServer
        \/ UnwindPass \/ UnwindErrors \/ UnwindLog \/ UnwindServer
        \/ (dir = "done" /\ UNCHANGED vars)      \* the request is over
Spec == Init /\ [][Next]_vars /\ WF_vars(Next)

\* ---- what the client and the access log see (net/http sends 200 when nothing was committed) --
Status(w) == IF w.sent = 0 THEN 200 ELSE w.sent
\* the body can be decoded iff the parts are uniformly (un)compressed and labelled accordingly
Decodable(w) == \A i \in 1..Len(w.body) : w.body[i].z = w.sentCE
Toks(parts) == [i \in 1..Len(parts) |-> parts[i].t]
Outcome == [status |-> Status(W), body |-> Toks(W.body), decodable |-> Decodable(W), gz |-> W.sentCE,
            commits |-> W.commits, lines |-> [i \in 1..Len(lines) |-> [st |-> lines[i].st, sz |-> Toks(lines[i].sz)]],
            errlog |-> errlog]

\* the behaviour that decides the obligations: the probe's, or the status rule's
Eff == IF req.path = "st404" THEN [k |-> "ret", s |-> 404, e |-> FALSE, x |-> FALSE]
       ELSE IF req.path = "st204" THEN [k |-> "write", s |-> 204, e |-> FALSE, x |-> TRUE]
       ELSE beh
Done == dir = "done"

\* ---- C12 ------------------------------------------------------------------------------
OneCommitP(b, o) == b.k \notin {"panicafter", "writeret"} => Len(o.commits) <= 1
ErrorGetsBodyP(c, b, o) ==
    (b.k = "ret" /\ b.s >= 400) =>
        /\ o.status = b.s /\ o.body # << >> /\ o.decodable
        /\ (EffErr(c) = "page" => o.body = << PageTok(b.s) >>)
WrittenUnalteredP(b, o) ==
    b.k \in {"write", "hintwrite"} => /\ o.status = b.s /\ o.decodable
                     /\ o.body = IF NoBody(b.s) THEN << >> ELSE << "B" >>
PanicP(b, o) ==
    /\ b.k = "panicbefore" => (o.status = 500 /\ Len(o.commits) = 1 /\ o.body # << >>)
    /\ b.k = "panicafter" => o.status \in {b.s, 500}

OneCommit == Done => OneCommitP(Eff, Outcome)
ErrorGetsBody == Done => ErrorGetsBodyP(cfg, Eff, Outcome)
WrittenUnaltered == Done => WrittenUnalteredP(Eff, Outcome)
PanicIs500IfNothingWritten == Done => PanicP(Eff, Outcome)
\* a panic never leaves Server.ServeHTTP, the request always completes
ServerSurvives == <>Done      \* (a non-final state without successor is reported by TLC's deadlock check)

\* ---- C20 (every request here is inside the scope of the one configured log) ---------------
OneLineP(c, o) == Len(o.lines) = IF "log" \in c.on THEN 1 ELSE 0
\* (a handler that panicked after it started writing leaves a response that C12 already excepts:
\*  the recorder then holds the status of the late error answer, not of the first commit)
StatusSizeP(b, o) == b.k # "panicafter" =>
                        \A i \in 1..Len(o.lines) : o.lines[i].st = o.status /\ o.lines[i].sz = o.body
OneLinePerLog == Done => OneLineP(cfg, Outcome)
StatusSizeMatchClient == Done => StatusSizeP(Eff, Outcome)

\* ---- case emission ----------------------------------------------------------------------
SetToSortedSeq(S) == LET idx == {i \in 1..N : Chain[i] \in S}
                         RECURSIVE F(_)
                         F(T) == IF T = {} THEN << >> ELSE LET m == CHOOSE x \in T : \A y \in T : x <= y
                                                         IN <<Chain[m]>> \o F(T \ {m})
                     IN F(idx)
Emit == (EMIT /\ Done) =>
          PrintT(<<"CASE", ToJson([on |-> SetToSortedSeq(cfg.on), errors |-> cfg.errors,
                                   path |-> req.path, gz |-> req.gz, beh |-> beh, eff |-> Eff,
                                   out |-> Outcome])>>)
=============================================================================
