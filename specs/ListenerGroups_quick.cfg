\* quick: every configuration of <= 2 sites (one block with two keys, or two blocks) over
\* 4 hosts x 3 ports x 3 paths x 2 schemes with at most ONE special part per key (special = a host
\* other than a.test / none, an explicit :P1, a path, a scheme); all four bind spellings;
\* -port = P1, -host not given.  Invariants + one CASE per configuration.
CONSTANTS
  Hosts = {"a.test", "A.TEST", "*.test", ""}
  Ports = {"", "P1", "P2"}
  Paths = {"", "/p", "/P"}
  Schemes = {"", "http"}
  Binds = {"", "127.0.0.1", "localhost", "127.0.0.2"}
  PlainHosts = {"a.test", ""}
  PlainPorts = {"", "P2"}
  MaxWeight = 1
  FlagHosts = {}
  FlagPorts = {}
  MaxBlocks = 2
  MaxKeys = 2
  MaxSites = 2
  ReqHosts = {"a.test", "other.invalid"}
  ReqPaths = {"/p"}
  EmitCases = TRUE
  EmitMaxWeight = 4
SPECIFICATION Spec
INVARIANT TypeOK
INVARIANT GroupingIsPartition
INVARIANT SameGroupIffSameListenAddr
INVARIANT DuplicatesRejected
INVARIANT DefaultsApplied
INVARIANT NoShadowing
INVARIANT ListenersAreGroups
INVARIANT NoCrossListenerAnswer
INVARIANT OrderIndependent
INVARIANT Emit
CHECK_DEADLOCK FALSE
