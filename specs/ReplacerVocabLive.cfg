\* thorough tier only: every exchange completes (no step blocks, the expansion of the formats ends) - the quick families,
\* nothing emitted (liveness checking keeps the whole behaviour graph)
SPECIFICATION Spec
CONSTANTS
    EMIT = FALSE
    Tier = "quick"
    NMix = 120
    FIX_LOGSAFE = TRUE
    FIX_BODY = TRUE
    FIX_TLS13 = TRUE
    FIX_NOUSER = TRUE
    FIX_XFF = TRUE
INVARIANTS TypeOK
PROPERTY Completes
CHECK_DEADLOCK FALSE
