CONSTANTS Types = {"lines", "text", "binary"}
 Bufs = {4}
 Modes = {"dflt", "ign"}
 Scopes = {"req", "bridge"}
 MaxM = 1
 MaxW = 1
 MaxOps = 0
 Rich = FALSE
 WithStop = FALSE
 FixKill = TRUE
 FixTextBuf = TRUE
SPECIFICATION Spec
INVARIANTS TypeOK OneProcessPerConnection NonUpgradeUntouched EnvExact BytesExactIn BytesExactOut NothingLostAtExit CloseCodeTellsOutcome SignalOrder AlwaysReaped ReadHasRoom
CHECK_DEADLOCK FALSE
