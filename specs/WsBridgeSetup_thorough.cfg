CONSTANTS MaxArgs = 3
 Blocks = {"none", "empty", "respawn", "text", "typeonly", "bogustype", "buf8", "bufbad", "bufneg", "junk", "bin8", "junk2"}
 Seconds = {"none", "PC", "C", "PQb"}
 FixBlock = TRUE
SPECIFICATION Spec
INVARIANTS TypeOK NoEmptyCommand DocumentedFormsAccepted Emit
PROPERTIES ParseTotal
CHECK_DEADLOCK FALSE
