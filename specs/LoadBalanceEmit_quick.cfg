CONSTANT MaxN = 4
CONSTANT MF = 2
CONSTANT MCs = {0, 2}
CONSTANT Probing = "linear"
CONSTANT RRRounds = 1
INIT InitEmit
NEXT Build
INVARIANT Emit
CHECK_DEADLOCK FALSE
