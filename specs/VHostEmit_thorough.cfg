CONSTANT K = 3
INIT InitEmit
NEXT Grow
INVARIANT Emit
CHECK_DEADLOCK FALSE
