CONSTANT K = 2
CONSTANT Profs = {"default", "old", "new", "cipher", "require", "verify", "off"}
CONSTANT FullProduct = TRUE
SPECIFICATION Spec
INVARIANT MixRejected
INVARIANT SameNameSameSettings
INVARIANT RejectedStops
INVARIANT GovernedBySNISite
INVARIANT HandshakeFollowsProfile
INVARIANT CertOfGoverningSite
INVARIANT MinTLS12Default
INVARIANT ClientAuthNotBypassed
INVARIANT TablesAgree
PROPERTY Terminates
CHECK_DEADLOCK FALSE
