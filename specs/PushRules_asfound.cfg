\* by hand (not part of ./check): the algorithm as it was found, the three repairs switched off.
\* TLC refutes GuardMarkerArrives / NoPushOnPushed (mergeHeaders loses the marker), RulesAsWritten (a line without
\* arguments replaces the rule "/") and LinkSemantics (<HTTPS://other.test/y> is pushed). Put one of them last to see its trace:
\*   tlc -workers 8 -config PushRules_asfound.cfg PushRules.tla
CONSTANT MaxLines = 2
CONSTANT Sample2 = 40
CONSTANT Sample3 = 1000000
CONSTANT LinkOneIn = 9
CONSTANT FIX_MARKER = FALSE
CONSTANT FIX_BAREMERGE = FALSE
CONSTANT FIX_REMOTECASE = FALSE
SPECIFICATION Spec
INVARIANT TypeOK
INVARIANT SetupRejectsIffInvalid
INVARIANT PushedSetExact
INVARIANT MainResponseUnaltered
INVARIANT RulesAsWritten
INVARIANT GuardMarkerArrives
INVARIANT NoPushOnPushed
INVARIANT LinkSemantics
CHECK_DEADLOCK FALSE
