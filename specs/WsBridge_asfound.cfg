CONSTANTS Types = {"binary"}
 Bufs = {4}
 Modes = {"dflt", "ign"}
 Scopes = {"bridge"}
 MaxM = 0
 MaxW = 1
 MaxOps = 0
 Rich = FALSE
 WithStop = TRUE
 FixKill = FALSE
 FixTextBuf = TRUE
SPECIFICATION SpecLive
INVARIANTS TypeOK
PROPERTIES Terminates NoOrphanAfterStop
CHECK_DEADLOCK FALSE
