CONSTANT HopTest = "firstvalue"
CONSTANT ConnLines = "first"
CONSTANT MaxPath = 5
CONSTANT Statuses = {200, 204, 404, 503}
CONSTANT NetHTTP = "asis"
CONSTANT Attempts = "reuse"
INIT InitAll
NEXT Next
INVARIANT TypeOK
INVARIANT BackendHeaders
INVARIANT BackendXFF
INVARIANT BackendMethodQueryBody
INVARIANT BackendPath
INVARIANT AttemptsAlike
INVARIANT ClientResponse
CHECK_DEADLOCK FALSE
