CONSTANT K = 3
CONSTANT Lims = {2, 3, 5}
CONSTANT Record = FALSE
CONSTANT Aborts = TRUE
CONSTANT MaxPost = 2
CONSTANT Modes = {"handler", "proxy"}
SPECIFICATION Spec
INVARIANT ChosenIsLongestScope
INVARIANT NeverBeyondLimit
INVARIANT DeliveredPrefix
INVARIANT ErrIff
INVARIANT AbortSafe
INVARIANT Proxy413
PROPERTY Sticky
PROPERTY Terminates
CHECK_DEADLOCK FALSE
