CONSTANTS NOpts = {1, 2, 3}
 NReq = 4
 Modes = {"ok", "s399", "s400", "s500", "nobody", "timeout", "reset"}
 MaxRounds = 1000000
 MaxSets = 1000000
 MaxEnv = 1000000
 MaxCalls = 1000000
 MaxSteps = 0
 FailsOpts = {1, 2}
 ConnsOpts = {0, 1}
 RetryOpts = {TRUE, FALSE}
 ContainsOpts = {TRUE, FALSE}
 HCOpts = {TRUE, FALSE}
 Fixed = TRUE
SPECIFICATION TSpec
CONSTRAINT Constr
INVARIANTS TypeOK FlagIsLastProbe AfterRound RoundCoversAll ChangeSeenByNextRound RecoveredUsedAgain AvailDef FailsExact NoWorkerWithoutHC StoppedMeansDead NoRoundAfterStop
POSTCONDITION Accepted
CHECK_DEADLOCK FALSE
