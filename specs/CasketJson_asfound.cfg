\* BY HAND, expected to FAIL: jsonToText as it was found (quotes only for `" \n\t\r` and blank). TLC refutes RoundTripBlocks
\* (arguments "", a#b, #a, a<NBSP>b, a\"b, {$UNSET}).  timeout 120 tlc -continue -config CasketJson_asfound.cfg CasketJson.tla
CONSTANTS Quoting = "asfound"
          Shapes = {"args", "block", "argsblock", "nested", "deep", "empty", "twodirs", "twoblocks", "snippet"}
          BadShapes = {"strayclose", "badimport"}
          KeyForms = {"plain", "path", "two"}
          Slot1 = {"w", "sp", "tb", "em", "qt", "qs", "q0", "bs", "bss", "bb", "bq", "nl", "cr", "us", "hs", "h0", "br", "ev", "ew", "eu", "ex", "ph"}
          Slot2 = {"w", "em", "nl"}
          WalkKinds = {"w", "o", "c"}
          WalkToksN = 0
          WalkLen = 3
          WalkOps = {"Next", "NextArg", "NextLine", "NextBlock", "RemainingArgs", "Args2"}
          ShapedLen = 0
          ShapedOps = {"NextBlock", "RemainingArgs"}
SPECIFICATION Spec
INVARIANT RoundTripBlocks
INVARIANT RoundTripJson
INVARIANT JsonHasEveryToken
INVARIANT TextBalanced
INVARIANT RejectsWhatParseRejects
INVARIANT JsonWalkSane
INVARIANT ArgStaysOnLine
INVARIANT LineNeverSkips
INVARIANT RemainingIsArgRun
INVARIANT ArgsIsArgPrefix
INVARIANT AtMostOnce
INVARIANT CursorMonotone
INVARIANT NothingSkippedByArgCalls
INVARIANT BlockLoopExact
INVARIANT EmptyBlock
INVARIANT BoundedRun
CHECK_DEADLOCK TRUE
