CONSTANTS MaxAttempts = 3
INIT Init
NEXT Next
INVARIANT Emit
CHECK_DEADLOCK FALSE
