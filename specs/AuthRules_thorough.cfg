CONSTANT MaxRules = 2
CONSTANT ResSets <- ThoroughRes
CONSTANT ExSets <- QuickEx
CONSTANT RuleCreds <- ThoroughRuleCreds
CONSTANT ManyRealms = FALSE
CONSTANT ReqPaths <- ThoroughPaths
CONSTANT ReqCreds <- ThoroughReqCreds
CONSTANT ReqMethods = {"GET", "OPTIONS"}
SPECIFICATION Spec
INVARIANT ReachedOnlyWithValidCreds
INVARIANT ValidCredsPass
INVARIANT UnprotectedPasses
INVARIANT RealmOfARejectingRule
INVARIANT NoChallengeOnPass
INVARIANT UserPlaceholder
INVARIANT LocalsMeanWhatTheySay
INVARIANT Emit
PROPERTY AuthSticks
PROPERTY Terminates
CHECK_DEADLOCK FALSE
