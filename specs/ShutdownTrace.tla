--------------------------- MODULE ShutdownTrace ---------------------------
(* Validates traces of a real child process (package casket with TrapSignals, instances of    *)
(* the scriptable server type) that was sent a scripted sequence of signals.  Logged: the      *)
(* callbacks that ran, the servers that were stopped, the exit code.  Not logged (inferred by  *)
(* TLC as silent steps): signal delivery, the handler loops taking a signal, entering and      *)
(* leaving the sync.Once.                                                                      *)
EXTENDS Shutdown

VARIABLE l
Trace == ndJsonDeserialize("trace.ndjson")
tvars == <<vars, l>>
E == Trace[l]
IsEvent(e) == l <= Len(Trace) /\ Trace[l].ev = e /\ l' = l + 1

TInit == InitWith(1, <<>>, 0) /\ l = 1

\* a new child process: its number of instances and the signals it will be sent
TScript == /\ IsEvent("script")
           /\ n' = E.n /\ pending' = E.sigs
           /\ pch' = <<>> /\ ich' = <<>> /\ ppc' = "wait" /\ ipc' = "wait" /\ ints' = 0 /\ jpc' = "none"
           /\ once' = "idle" /\ runner' = "-" /\ ci' = 1 /\ ck' = 1
           /\ ran' = [i \in Insts |-> [kd \in Kind |-> 0]]
           /\ stopped' = {} /\ si' = 1 /\ exited' = "no"
           /\ stopper' = E.stopper /\ spc' = "none" /\ list' = [i \in 1..E.n |-> i]

TCb == /\ IsEvent("cb") /\ ci <= Len(list) /\ list[ci] = E.g /\ KindAt(ck) = E.kind
       /\ (RunCb("p") \/ RunCb("j"))
\* a server's Stop() was entered: casket.Stop working on the head of the list, or the goroutine
\* the scripted callback spawned
TStop == /\ IsEvent("stop")
         /\ \/ ppc = "stop" /\ list # <<>> /\ Head(list) = E.g /\ PStop
            \/ stopper = E.g /\ StopperServers
TExit == /\ IsEvent("exit")
         /\ \/ PTake /\ exited' = "quit" /\ E.code = 0
            \/ PStop /\ exited' = "term" /\ E.code = 0
            \/ JExit /\ E.code = 0
            \/ ITake /\ exited' = "force" /\ E.code = 2

Silent == /\ UNCHANGED l
          /\ \/ Deliver
             \/ PTake /\ exited' = "no"
             \/ POnce \/ JOnce \/ LeaveOnce("p") \/ LeaveOnce("j")
             \/ ITake /\ exited' = "no"
             \/ StopperSplice

TNext == TScript \/ TCb \/ TStop \/ TExit \/ Silent
TSpec == TInit /\ [][TNext]_tvars

Constr == TLCSet(1, IF l > TLCGet(1) THEN l ELSE TLCGet(1))
Accepted == IF TLCGet(1) = Len(Trace) + 1 THEN TRUE
            ELSE Print(<<"REJECTED at event", TLCGet(1), Trace[TLCGet(1)]>>, FALSE)
ASSUME TLCSet(1, 0)
=============================================================================
