---------------------------- MODULE ImportGraph2 ----------------------------
(* ImportGraph with 2 files and 2 snippets (separate module name so that the driver keeps its cases apart). *)
EXTENDS ImportGraph
=============================================================================
