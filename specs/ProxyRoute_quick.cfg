\* quick: every rule set of <= 2 rules over 4 from-paths x 3 except lists, request paths of <= 2 segments
CONSTANT Spaces = {"route", "target", "query", "pool"}
CONSTANT RouteSegs = {"a", "A", "b", "x", "..", "%2F", "%61", "", ";p"}
CONSTANT RouteMax = 2
CONSTANT RouteSegs3 = {}
CONSTANT RouteFroms = {"/", "/a", "/a/b", "/A"}
CONSTANT RouteExcepts = {"none", "/x", "/a/x"}
CONSTANT Route3 = FALSE
CONSTANT TargetSegs = {"a", "A", "b", "..", "%2F", "%61", "", "a%20b", "%3B"}
CONSTANT TargetMax = 2
CONSTANT WithoutRaw = "decoded"
CONSTANT SchemeTest = "scheme"
SPECIFICATION Spec
INVARIANT TypeOK
INVARIANT RuleChoiceIsLongestMatch
INVARIANT ChoiceIsOrderIndependent
INVARIANT ExceptMeansNotProxied
INVARIANT TargetIsBasePlusStrippedPath
INVARIANT QueryIsBaseThenRequest
INVARIANT NoPathEscape
INVARIANT PoolIsToThenUpstream
INVARIANT SchemelessIsHTTP
INVARIANT RefusedOnlyForCause
INVARIANT Emit
CHECK_DEADLOCK FALSE
