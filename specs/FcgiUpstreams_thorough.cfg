CONSTANTS
 NOpts = {1, 2, 3}
 ConcNOpts = {2}
 MaxReq = 5
 ReqOpts = {5}
 ConcReq = 3
 PortModes = {"up", "refuse", "blackhole"}
 AnsModes = {"ok", "slow", "stall", "noread", "closeearly", "closemid", "stallbody"}
 MaxVisits = 2
 MaxFaults = 2
 ConcFaults = 1
 Kinds = {"php", "static", "big"}
 ConcKinds = {"php"}
 StaticAt = {4}
 CTOpts = {2}
 RTOpts = {3}
 STOpts = {1, 5}
 SD = 1
 MaxStart = 1
 Skew = 0
 Slack = 0
 CopyErrStatus = 0
 OrderedStart = TRUE
 PoolCap = 0
 EmitCases = TRUE
SPECIFICATION Spec
INVARIANTS TypeOK RoundRobinEven RoundRobinWindow RotationAsDeclared RotationOnlyOnForward PoolBounded OpenBounded
 NoSharedConnection ReuseOnlyAfterCompleteResponse HandlerContract ClosedBeforeReturn NoFdLeak OutcomeByUpstream
 TimeoutBounded SeqAgrees Emit
CHECK_DEADLOCK FALSE
