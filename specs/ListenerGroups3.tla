--------------------------- MODULE ListenerGroups3 ---------------------------
(* ListenerGroups.tla under a second name: the ./check driver keeps one file of CASE lines per  *)
(* module name, this one holds the configurations of three sites (ListenerGroups3_thorough.cfg). *)
EXTENDS ListenerGroups
=============================================================================
