------------------------------ MODULE StaticCond ------------------------------
(***************************************************************************)
(* Extension of C18 (notes/StaticCond.md): validators, conditional and      *)
(* range requests of the static file server, how they combine with          *)
(* precompressed siblings, and what the gzip middleware does to them.       *)
(* Gzip.tla models full 200 responses only; this module models what         *)
(* caskethttp/staticfiles/fileserver.go does around http.ServeContent.      *)
(*                                                                         *)
(* One behaviour = one resource /f.txt with a set of precompressed siblings *)
(* (.gz/.br/.zst, each older / same second / newer than the original, each  *)
(* with its own size or a size shared with another sibling) on a site with  *)
(* or without the gzip directive, asked two (three) times:                  *)
(*   step 1  plain GET with Accept-Encoding ae1 -> the "previous answer"    *)
(*   Choose2 the file system changes (or not) and the client builds its     *)
(*           second request from the validators of the first answer         *)
(*   step 2  the conditional / range request                                *)
(*   step 3  (family T) the same request once more as HEAD                  *)
(*                                                                         *)
(* Actions of one request, in the order of the code:                        *)
(*   GzipServe      gzip.Gzip.ServeHTTP: acceptsGzip + extension filter ->  *)
(*                  the response writer is wrapped (engaged) or not         *)
(*   OpenFile       serveFile: open + stat the requested file               *)
(*   TrySibling     one iteration of the staticEncodingPriority loop        *)
(*                  (zstd, br, gzip): listed literally by the client and    *)
(*                  the file exists -> Vary, Content-Encoding,              *)
(*                  Content-Length of the sibling, break                    *)
(*   SetETag        calculateEtag(etagInfo): mtime + size of the file that  *)
(*                  is SERVED (the sibling's, not the original's)           *)
(*   Preconditions  ServeContent: setLastModified (mtime of the ORIGINAL),  *)
(*                  checkPreconditions: If-Match / If-Unmodified-Since ->   *)
(*                  412, If-None-Match / If-Modified-Since -> 304           *)
(*                  (writeNotModified deletes Content-Type/-Length/         *)
(*                  -Encoding and Last-Modified), If-Range -> Range dropped *)
(*   Ranges         Content-Type by the ORIGINAL's name, size of the served *)
(*                  file, parseRange -> 416 / one range (Content-Range) /   *)
(*                  several (multipart/byteranges) / none, Content-Length   *)
(*   WriteHeader    header time.  Through the gzip middleware this is       *)
(*                  ResponseFilterWriter.WriteHeader: response filters      *)
(*                  (already encoded? min_length? partial?) and, when it    *)
(*                  compresses, gzipResponseWriter.WriteHeader (Content-    *)
(*                  Length removed, Content-Encoding: gzip, Vary, weak ETag)*)
(*   CopyBody       io.CopyN of the selected bytes (not for HEAD)           *)
(*   Finish         handler returns; deferred putWriter closes the gzip     *)
(*                  stream; net/http drops the body of HEAD / 304           *)
(*                                                                         *)
(* Bytes are abstract: a body is (file, version, byte intervals, inside a   *)
(* gzip stream or not); the harness gives every (file, version) distinct    *)
(* position-dependent content and compares real bytes.  An ETag is the      *)
(* tuple it is computed from; its text never matters, only equality.        *)
(*                                                                         *)
(* Constants naming the repairs / the recorded deviation (notes):           *)
(*   Repaired412   = FALSE: a 412 for a precompressed file keeps the        *)
(*                   sibling's Content-Length and Content-Encoding (no body *)
(*                   follows: the client waits, then sees a short read)     *)
(*   RepairedRange = FALSE: gzip compresses 206 / 416 responses (the range  *)
(*                   of the identity file relabelled as a gzip              *)
(*                   representation, Content-Range of the identity file)    *)
(*   TagPerCoding  = FALSE: the ETag as casket computes it (mtime, size):   *)
(*                   two codings of one URL with the same second and size   *)
(*                   share a strong ETag.  No repair passes the package's   *)
(*                   own tests (they pin the tags) - recorded as known.     *)
(***************************************************************************)
EXTENDS Integers, Sequences, FiniteSets, TLC, Json

CONSTANTS Repaired412, RepairedRange, TagPerCoding,
          Fams,        \* which families of initial states / second requests: subset of {"C","R","X","T"}
          RelSet,      \* mtime of a sibling relative to the original: subset of {"older","same","newer"}
          UseCommon,   \* siblings may have the shared size (ETag collisions possible)
          SiteNames,   \* subset of {"plain","gzip","gzipmin"}
          AENames,     \* Accept-Encoding values of families C, R, T
          AEXNames,    \* Accept-Encoding values of family X (both requests)
          Changes,     \* what happens to the files between the requests
          Conds, Rngs  \* conditional kinds / Range forms of the second request

\* ---- files, codings -----------------------------------------------------------------------
Sibs == {"gz", "br", "zst"}
Files == {"id"} \cup Sibs
Prio == <<"zst", "br", "gz">>                  \* staticEncodingPriority
CEOf(f) == CASE f = "id" -> "none" [] f = "gz" -> "gzip" [] f = "br" -> "br" [] f = "zst" -> "zstd"
OwnSize(f) == CASE f = "id" -> 40 [] f = "gz" -> 31 [] f = "br" -> 29 [] f = "zst" -> 27
CommonSize == 33
Tick(rel) == CASE rel = "older" -> 1 [] rel = "same" -> 2 [] rel = "newer" -> 3
OrigTick == 2
ChangeTick == 5
Absent == [ex |-> FALSE, mt |-> 0, ver |-> 1, size |-> 0]
File(mt, sz) == [ex |-> TRUE, mt |-> mt, ver |-> 1, size |-> sz]
SizesOf(f) == {OwnSize(f)} \cup (IF UseCommon /\ f # "gz" THEN {CommonSize} ELSE {})
Opt(f) == {Absent} \cup {File(Tick(r), s) : r \in RelSet, s \in SizesOf(f)}
WorldsFull == {[id |-> File(OrigTick, OwnSize("id")), gz |-> a, br |-> b, zst |-> c] : a \in Opt("gz"), b \in Opt("br"), c \in Opt("zst")}
Present(w) == {f \in Sibs : w[f].ex}
\* basic worlds: every sibling has its own size and all siblings share one relation to the original
Basic(w) == /\ \A f \in Present(w) : w[f].size = OwnSize(f)
            /\ \A f, g \in Present(w) : w[f].mt = w[g].mt
NewerOnly(w) == \A f \in Present(w) : w[f].mt = Tick("newer")
\* family X: at least two siblings, the .gz one (if any) newer with its own size
XWorld(w) == Cardinality(Present(w)) >= 2 /\ (w.gz.ex => w.gz.mt = Tick("newer"))

\* ---- sites --------------------------------------------------------------------------------
AllSites == { [name |-> "plain", gzip |-> FALSE, minlen |-> 0],
              [name |-> "gzip", gzip |-> TRUE, minlen |-> 0],
              [name |-> "gzipmin", gzip |-> TRUE, minlen |-> 35] }     \* gzip { min_length 35 }
Sites == {s \in AllSites : s.name \in SiteNames}

\* ---- Accept-Encoding: literal text, the codings listed literally (what serveFile looks at),
\*      and the gzip middleware's own test (acceptsGzip: names gzip with q > 0) -----------------
AllAEs == { [text |-> "absent",          lists |-> {},                    mw |-> FALSE],
            [text |-> "gzip",            lists |-> {"gzip"},              mw |-> TRUE],
            [text |-> "br",              lists |-> {"br"},                mw |-> FALSE],
            [text |-> "zstd",            lists |-> {"zstd"},              mw |-> FALSE],
            [text |-> "br, gzip",        lists |-> {"br", "gzip"},        mw |-> TRUE],
            [text |-> "gzip, br, zstd",  lists |-> {"gzip", "br", "zstd"}, mw |-> TRUE],
            [text |-> "gzip;q=0.5",      lists |-> {},                    mw |-> TRUE],
            [text |-> "zstd, gzip;q=0",  lists |-> {"zstd"},              mw |-> FALSE] }
AEs == {a \in AllAEs : a.text \in AENames}
AEXs == {a \in AllAEs : a.text \in AEXNames}

\* ---- validators -----------------------------------------------------------------------------
NoTag == [w |-> FALSE, mt |-> -1, size |-> -1, cod |-> "none"]
HasTag(e) == e.mt >= 0
\* the opaque part of the tag text: equal opaque parts = the same entity-tag string (up to W/)
Opaque(e) == IF TagPerCoding THEN <<e.mt, e.size, e.cod>> ELSE <<e.mt, e.size>>
WeakMatch(a, b) == HasTag(a) /\ HasTag(b) /\ Opaque(a) = Opaque(b)
StrongMatch(a, b) == WeakMatch(a, b) /\ ~a.w /\ ~b.w
NoDate == -1
OldDate == 0                                   \* a date before every file time

\* ---- requests -------------------------------------------------------------------------------
NoCR == [kind |-> "none", a |-> 0, b |-> 0, total |-> 0]
Req(m, ae, c, r, ir, vt, vd) == [method |-> m, ae |-> ae, cond |-> c, rng |-> r, ifr |-> ir, vtag |-> vt, vdate |-> vd]
Plain(ae) == Req("GET", ae, "none", "none", "none", NoTag, NoDate)
\* parseRange for a representation of n bytes: sequence of <<first, last>>, or Unsat (no overlap)
Unsat == << <<-1, -1>> >>
ParseRange(r, n) ==
    CASE r = "r2_11"   -> << <<2, 11>> >>
      [] r = "r5_"     -> << <<5, n - 1>> >>
      [] r = "rm7"     -> << <<n - 7, n - 1>> >>
      [] r = "r0_0"    -> << <<0, 0>> >>
      [] r = "r10_999" -> << <<10, n - 1>> >>
      [] r = "multi"   -> << <<0, 3>>, <<10, 13>> >>
      [] r = "r999_"   -> Unsat
      [] OTHER         -> << >>
PartLen(p) == p[2] - p[1] + 1
RECURSIVE SumLen(_)
SumLen(ps) == IF ps = << >> THEN 0 ELSE PartLen(Head(ps)) + SumLen(Tail(ps))
MimeLen(ps) == SumLen(ps) + 1000 * Len(ps)     \* rangesMIMESize: symbolic, the same on both sides
ErrLen == 999                                   \* length of net/http's error text, symbolic

\* ---- state ------------------------------------------------------------------------------------
NoHdr == [ce |-> "none", cl |-> -1, etag |-> NoTag, lm |-> NoDate, vary |-> FALSE, ct |-> "none", cr |-> NoCR, ar |-> FALSE]
NoBody == [kind |-> "none", src |-> "id", ver |-> 0, parts |-> << >>, otf |-> FALSE]
NoResp == [status |-> 0, wire |-> NoHdr, body |-> NoBody, sel |-> "id", selver |-> 0, selmt |-> 0, method |-> "GET"]

VARIABLES fam, fs, site,
          fs0, ae1,       \* the files and the Accept-Encoding of the first request (for the emitted case)
          step, req, chg, twin,
          pc, engaged, sel, i, hdr, rr, status, compress, wire, body,
          resp            \* the completed answers: [1..3 -> response]
vars == <<fam, fs, site, fs0, ae1, step, req, chg, twin, pc, engaged, sel, i, hdr, rr, status, compress, wire, body, resp>>
world == <<fam, fs, site, fs0, ae1>>
handler == <<engaged, sel, i, hdr, rr, status, compress, wire, body>>

Fresh == /\ pc = "gzip" /\ engaged = FALSE /\ sel = "id" /\ i = 1 /\ hdr = NoHdr /\ rr = "none"
         /\ status = 0 /\ compress = FALSE /\ wire = NoHdr /\ body = NoBody
FreshNext == /\ pc' = "gzip" /\ engaged' = FALSE /\ sel' = "id" /\ i' = 1 /\ hdr' = NoHdr /\ rr' = "none"
             /\ status' = 0 /\ compress' = FALSE /\ wire' = NoHdr /\ body' = NoBody

Init ==
    /\ fam \in Fams
    /\ fs \in CASE fam = "C" -> {w \in WorldsFull : Basic(w)}
                [] fam = "R" -> {w \in WorldsFull : Basic(w) /\ NewerOnly(w)}
                [] fam = "T" -> {w \in WorldsFull : Basic(w) /\ NewerOnly(w)}
                [] fam = "X" -> {w \in WorldsFull : XWorld(w)}
    /\ site \in IF fam = "X" THEN {s \in Sites : s.minlen = 0} ELSE Sites
    /\ req \in {Plain(a) : a \in IF fam = "X" THEN AEXs ELSE AEs}
    /\ fs0 = fs /\ ae1 = req.ae
    /\ step = 1 /\ chg = "none" /\ twin = (fam = "T")
    /\ resp = [k \in 1..3 |-> NoResp]
    /\ Fresh

\* ---- one request -------------------------------------------------------------------------------
\* gzip.Gzip.ServeHTTP up to the call of the next handler (.txt is in the default extension list)
GzipServe ==
    /\ pc = "gzip"
    /\ engaged' = (site.gzip /\ req.ae.mw)
    /\ pc' = "open"
    /\ UNCHANGED <<world, step, req, chg, twin, sel, i, hdr, rr, status, compress, wire, body, resp>>

\* serveFile: Open + Stat of the requested file (it exists, is regular and not hidden here)
OpenFile ==
    /\ pc = "open"
    /\ sel' = "id" /\ i' = 1
    /\ pc' = "sib"
    /\ UNCHANGED <<world, step, req, chg, twin, engaged, hdr, rr, status, compress, wire, body, resp>>

\* one iteration of `for _, encoding := range staticEncodingPriority`
TrySibling ==
    /\ pc = "sib"
    /\ LET f == Prio[i] IN
       IF CEOf(f) \in req.ae.lists /\ fs[f].ex
       THEN /\ sel' = f
            /\ hdr' = [hdr EXCEPT !.vary = TRUE, !.ce = CEOf(f), !.cl = fs[f].size]
            /\ pc' = "etag" /\ UNCHANGED i
       ELSE /\ UNCHANGED <<sel, hdr>>
            /\ IF i = Len(Prio) THEN pc' = "etag" /\ UNCHANGED i ELSE i' = i + 1 /\ UNCHANGED pc
    /\ UNCHANGED <<world, step, req, chg, twin, engaged, rr, status, compress, wire, body, resp>>

\* calculateEtag(etagInfo)
TagOf(f) == [w |-> FALSE, mt |-> fs[f].mt, size |-> fs[f].size, cod |-> CEOf(f)]
SetETag ==
    /\ pc = "etag"
    /\ hdr' = [hdr EXCEPT !.etag = TagOf(sel)]
    /\ pc' = "pre"
    /\ UNCHANGED <<world, step, req, chg, twin, engaged, sel, i, rr, status, compress, wire, body, resp>>

\* http.ServeContent: setLastModified(d.ModTime()) + checkPreconditions
LM == fs["id"].mt                              \* the ORIGINAL's time also when a sibling is served
IfMatchFails == \/ req.cond = "imbogus"
                \/ req.cond = "im" /\ ~StrongMatch(req.vtag, hdr.etag)
IfUnmodFails == \/ req.cond = "iusold"
                \/ req.cond = "ius" /\ LM > req.vdate
NoneMatchHit == req.cond = "inm" /\ WeakMatch(req.vtag, hdr.etag)
NotModSince  == req.cond = "ims" /\ LM <= req.vdate          \* "imsold": always modified since
IfRangeOK == CASE req.ifr = "none" -> TRUE
               [] req.ifr = "etag" -> StrongMatch(req.vtag, hdr.etag)
               [] req.ifr = "date" -> req.vdate = LM
Preconditions ==
    /\ pc = "pre"
    /\ IF IfMatchFails \/ IfUnmodFails
       THEN \* w.WriteHeader(412): nothing removed by net/http; the repaired file server drops the
            \* sibling's Content-Length / Content-Encoding (encodedFileWriter)
            /\ status' = 412
            /\ hdr' = IF Repaired412 /\ sel # "id" THEN [hdr EXCEPT !.lm = LM, !.cl = -1, !.ce = "none"]
                      ELSE [hdr EXCEPT !.lm = LM]
            /\ rr' = "none" /\ pc' = "wh"
       ELSE IF NoneMatchHit \/ NotModSince
       THEN \* writeNotModified
            /\ status' = 304
            /\ hdr' = [hdr EXCEPT !.lm = NoDate, !.ct = "none", !.cl = -1, !.ce = "none"]
            /\ rr' = "none" /\ pc' = "wh"
       ELSE /\ hdr' = [hdr EXCEPT !.lm = LM]
            /\ rr' = IF IfRangeOK THEN req.rng ELSE "none"
            /\ pc' = "range" /\ UNCHANGED status
    /\ UNCHANGED <<world, step, req, chg, twin, engaged, sel, i, compress, wire, body, resp>>

\* Content-Type from d.Name() (the original's name), size of the served file, parseRange, Content-Length
Ranges ==
    /\ pc = "range"
    /\ LET n == fs[sel].size
           ps == ParseRange(rr, n) IN
       IF ps = Unsat
       THEN \* Content-Range: bytes */n, then http.Error (Content-Length deleted, text/plain)
            /\ status' = 416
            /\ hdr' = [hdr EXCEPT !.cr = [kind |-> "star", a |-> 0, b |-> 0, total |-> n], !.ct = "err", !.cl = -1]
       ELSE IF Len(ps) = 1
       THEN /\ status' = 206
            /\ hdr' = [hdr EXCEPT !.cr = [kind |-> "range", a |-> ps[1][1], b |-> ps[1][2], total |-> n],
                                  !.ct = "text", !.cl = PartLen(ps[1]), !.ar = TRUE]
       ELSE IF Len(ps) > 1
       THEN /\ status' = 206
            /\ hdr' = [hdr EXCEPT !.ct = "multipart", !.cl = MimeLen(ps), !.ar = TRUE]
       ELSE /\ status' = 200
            \* "skip setting Content-Length if the user set Content-Encoding": the sibling's stays
            /\ hdr' = [hdr EXCEPT !.ct = "text", !.cl = IF hdr.ce = "none" THEN n ELSE hdr.cl, !.ar = TRUE]
    /\ pc' = "wh"
    /\ UNCHANGED <<world, step, req, chg, twin, engaged, sel, i, rr, compress, wire, body, resp>>

\* header time.  gzip: SkipCompressedFilter, LengthFilter, (repaired) partial responses are left alone
SkipOK == hdr.ce = "none"
LenOK == site.minlen = 0 \/ (hdr.cl > 0 /\ hdr.cl >= site.minlen)
PartialOK == RepairedRange => (status # 206 /\ hdr.cr.kind = "none")
WriteHeader ==
    /\ pc = "wh"
    /\ compress' = (engaged /\ SkipOK /\ LenOK /\ PartialOK)
    /\ hdr' = IF compress'
              THEN [hdr EXCEPT !.cl = -1, !.ce = "gzip", !.vary = TRUE, !.etag = [hdr.etag EXCEPT !.w = TRUE]]
              ELSE hdr
    /\ wire' = hdr'
    /\ pc' = "body"
    /\ UNCHANGED <<world, step, req, chg, twin, engaged, sel, i, rr, status, body, resp>>

CopyBody ==
    /\ pc = "body"
    /\ body' = IF req.method = "HEAD" \/ status \in {304, 412} THEN [NoBody EXCEPT !.otf = compress]
               ELSE IF status = 416 THEN [NoBody EXCEPT !.kind = "err", !.otf = compress]
               ELSE LET ps == ParseRange(rr, fs[sel].size)
                        parts == IF ps = << >> THEN << <<0, fs[sel].size - 1>> >> ELSE ps IN
                    [kind |-> IF Len(parts) > 1 THEN "multi" ELSE "bytes", src |-> sel, ver |-> fs[sel].ver,
                     parts |-> parts, otf |-> compress]
    /\ pc' = "fin"
    /\ UNCHANGED <<world, step, req, chg, twin, engaged, sel, i, hdr, rr, status, compress, wire, resp>>

\* the handler returns (putWriter closes the gzip stream: nothing to model beyond body.otf);
\* the answer is complete
Finish ==
    /\ pc = "fin"
    /\ resp' = [resp EXCEPT ![step] = [status |-> status, wire |-> wire, body |-> body, sel |-> sel,
                                       selver |-> fs[sel].ver, selmt |-> fs[sel].mt, method |-> req.method]]
    /\ pc' = "done"
    /\ UNCHANGED <<world, step, req, chg, twin, engaged, sel, i, hdr, rr, status, compress, wire, body>>

\* ---- between the requests -------------------------------------------------------------------------
Rewrite(f) == [fs EXCEPT ![f] = [@ EXCEPT !.mt = ChangeTick, !.ver = 2]]
Changed(c, s1) ==
    CASE c = "none"   -> fs
      [] c = "orig"   -> Rewrite("id")
      [] c = "sel"    -> Rewrite(s1)
      [] c = "delsel" -> [fs EXCEPT ![s1] = Absent]
      [] c = "addzst" -> [fs EXCEPT !["zst"] = File(Tick("newer"), IF UseCommon THEN CommonSize ELSE OwnSize("zst"))]
ChangeOK(c, s1) ==
    CASE c \in {"sel", "delsel"} -> s1 # "id"
      [] c = "addzst" -> ~fs["zst"].ex
      [] OTHER -> TRUE

\* the second requests of a family: <<change, ae2, cond, rng, ifr>>
Second(a1) ==
    CASE fam = "C" -> {<<c, a1, k, "none", "none">> : c \in Changes, k \in Conds \ {"none"}}
      [] fam = "R" -> {<<c, a1, "none", r, ir>> : c \in Changes \cap {"none", "sel", "orig"}, r \in Rngs \ {"none"}, ir \in {"none", "etag", "date"}}
                      \cup {<<"none", a1, k, "r2_11", "none">> : k \in Conds \cap {"inm", "im", "imbogus", "ims"}}
      [] fam = "T" -> {<<"none", a1, k, "none", "none">> : k \in Conds}
                      \cup {<<"none", a1, "none", r, "none">> : r \in Rngs \ {"none"}}
      [] fam = "X" -> {<<c, a2, k[1], k[2], k[3]>> : c \in Changes \cap {"none", "delsel", "addzst"}, a2 \in AEXs,
                          k \in {<<"inm", "none", "none">>, <<"none", "r2_11", "etag">>, <<"none", "none", "none">>}}

Choose2 ==
    /\ pc = "done" /\ step = 1
    /\ \E s \in Second(req.ae) :
          /\ ChangeOK(s[1], resp[1].sel)
          /\ chg' = s[1]
          /\ fs' = Changed(s[1], resp[1].sel)
          /\ req' = Req("GET", s[2], s[3], s[4], s[5], resp[1].wire.etag, resp[1].wire.lm)
    /\ step' = 2
    /\ FreshNext
    /\ UNCHANGED <<fam, site, fs0, ae1, twin, resp>>

\* family T: the same request as HEAD
Twin ==
    /\ pc = "done" /\ step = 2 /\ twin
    /\ req' = [req EXCEPT !.method = "HEAD"]
    /\ step' = 3
    /\ FreshNext
    /\ UNCHANGED <<fam, fs, site, fs0, ae1, chg, twin, resp>>

Terminal == pc = "done" /\ (step = 3 \/ (step = 2 /\ ~twin))

Next == GzipServe \/ OpenFile \/ TrySibling \/ SetETag \/ Preconditions \/ Ranges \/ WriteHeader \/ CopyBody \/ Finish
        \/ Choose2 \/ Twin
Spec == Init /\ [][Next]_vars /\ WF_vars(Next)

\* ==== declarative properties ==========================================================================
\* Every answer is judged in the state in which it is complete (pc = "done", resp[step] just stored);
\* R1 is the stored first answer.
Cur == pc = "done"
R == resp[step]
R1 == resp[1]
Second2 == Cur /\ step = 2
\* which file an unconditional request with this Accept-Encoding is answered from, said without the loop
Selected(ae) ==
    LET ok == {k \in 1..Len(Prio) : CEOf(Prio[k]) \in ae.lists /\ fs[Prio[k]].ex} IN
    IF ok = {} THEN "id" ELSE Prio[CHOOSE k \in ok : \A m \in ok : k <= m]
FileOfCE(ce) == CASE ce = "none" -> "id" [] ce = "gzip" -> "gz" [] ce = "br" -> "br" [] ce = "zstd" -> "zst"
\* the representation the first answer carried is still what this request selects
SameRep == /\ Selected(req.ae) = R1.sel
           /\ fs[R1.sel].ver = R1.selver /\ fs[R1.sel].mt = R1.selmt
Whole(f) == << <<0, fs[f].size - 1>> >>
FullBody(b, f) == b.kind = "bytes" /\ b.src = f /\ b.ver = fs[f].ver /\ b.parts = Whole(f)

TypeOK ==
    /\ pc \in {"gzip", "open", "sib", "etag", "pre", "range", "wh", "body", "fin", "done"}
    /\ step \in 1..3 /\ i \in 1..3 /\ sel \in Files
    /\ status \in {0, 200, 206, 304, 412, 416}

\* two answers for the URL that differ in Content-Encoding never share a strong ETag
ValidatorPerRepresentation ==
    Second2 => ((R1.status \in {200, 206} /\ R.status \in {200, 206} /\ R1.wire.ce # R.wire.ce)
                   => ~StrongMatch(R1.wire.etag, R.wire.etag))

\* a client that stored the 200 and revalidates with its ETag gets 304 iff the request would again be
\* answered with the representation it holds; otherwise the full new representation
ConditionalConsistent ==
    Second2 /\ req.cond = "inm" /\ req.rng = "none" =>
        /\ (R.status = 304) <=> SameRep
        /\ R.status # 304 => (R.status = 200 /\ FullBody(R.body, Selected(req.ae)))
\* dates: casket puts the ORIGINAL's time on the wire also when a sibling is served.  Whether a date should
\* follow the served file instead is a free choice, so only what every choice must do is required: nothing
\* changed -> 304; the original is what is served and it was rewritten -> 200 with the new bytes.
\* (A rewritten SIBLING under an untouched original is not noticed by dates: observation (c).)
DateConsistent ==
    Second2 /\ req.cond = "ims" /\ req.rng = "none" /\ req.ae = ae1 =>
        /\ (chg = "none" => R.status = 304)
        /\ (chg = "orig" /\ Selected(req.ae) = "id" => (R.status = 200 /\ FullBody(R.body, "id")))
DateRangeSafe ==
    Second2 /\ req.ifr = "date" /\ req.rng # "none" /\ req.cond = "none" =>
        /\ (chg = "none" => R.status = (IF req.rng = "r999_" THEN 416 ELSE 206))
        /\ (chg = "orig" /\ Selected(req.ae) = "id" => (R.status = 200 /\ R.body.parts = Whole("id")))
\* If-Match with the stored tag: served iff that is a strong tag of the representation now selected
PreconditionConsistent ==
    Second2 /\ req.cond = "im" /\ req.rng = "none" =>
        IF SameRep /\ ~req.vtag.w THEN R.status = 200 ELSE (R.status = 412 /\ R.body.kind = "none")

\* a 206 carries bytes of the representation its own Content-Encoding names, never re-coded, with that
\* representation's length as the total and its strong ETag
RangeOfSelectedRepresentation ==
    Cur /\ R.status = 206 =>
        LET f == FileOfCE(R.wire.ce)
            ps == ParseRange(req.rng, fs[f].size) IN
        /\ ~R.body.otf
        /\ fs[f].ex /\ f = Selected(req.ae)
        /\ ~R.wire.etag.w /\ R.wire.etag = TagOf(f)
        /\ ps # Unsat /\ ps # << >>
        /\ \A p \in 1..Len(ps) : 0 <= ps[p][1] /\ ps[p][1] <= ps[p][2] /\ ps[p][2] < fs[f].size
        /\ R.method = "GET" => (R.body.src = f /\ R.body.ver = fs[f].ver /\ R.body.parts = ps)
        /\ Len(ps) = 1 => R.wire.cr = [kind |-> "range", a |-> ps[1][1], b |-> ps[1][2], total |-> fs[f].size]
\* If-Range with the stored tag: a range only if that is a strong tag of the representation now selected
\* (old bytes + new range are then bytes of one representation), the complete representation otherwise
IfRangeSafe ==
    Second2 /\ req.ifr = "etag" /\ req.rng # "none" /\ req.cond = "none" =>
        IF SameRep /\ ~req.vtag.w THEN R.status = (IF req.rng = "r999_" THEN 416 ELSE 206)
        ELSE (R.status = 200 /\ R.body.parts = Whole(Selected(req.ae)))

\* HEAD = GET without the body
HeadEqualsGet ==
    Cur /\ step = 3 => (R.status = resp[2].status /\ R.wire = resp[2].wire /\ R.body.kind = "none")

BodyLen(b) == CASE b.kind = "none" -> 0 [] b.kind = "bytes" -> SumLen(b.parts) [] b.kind = "multi" -> MimeLen(b.parts) [] b.kind = "err" -> ErrLen
\* a Content-Length set by the handlers equals the bytes that follow (net/http computes the others)
LengthCorrect ==
    Cur /\ R.method = "GET" /\ R.status # 304 /\ R.wire.cl >= 0 => (R.wire.cl = BodyLen(R.body) /\ ~R.body.otf)

\* an encoded answer says that it was negotiated
VaryWhenNegotiated == Cur /\ R.status \in {200, 206} /\ R.wire.ce # "none" => R.wire.vary
\* Content-Type by the original's extension whichever file is served; the label names the one coding applied
TypeAndCoding ==
    Cur /\ R.status = 200 =>
        /\ R.wire.ct = "text"
        /\ R.wire.ce = (IF R.body.otf THEN "gzip" ELSE CEOf(R.sel))
        /\ R.body.otf => R.sel = "id"
        /\ R.sel = Selected(req.ae)
        /\ R.method = "GET" => FullBody(R.body, R.sel)
NoBodyWhenNotAllowed == Cur /\ (R.status \in {304, 412} \/ R.method = "HEAD") => R.body.kind = "none"
\* the first answer is a complete 200 with both validators
FirstIsFull == Cur /\ step = 1 => (R.status = 200 /\ HasTag(R.wire.etag) /\ R.wire.lm = LM)

Terminates == <>Terminal
\* action properties (StaticCondLive.cfg): what went out at header time is what the client has - nothing after
\* WriteHeader touches it; and the files only change between the requests, never under a request in flight
WireFrozen == [][(pc \in {"body", "fin"}) => (wire' = wire)]_vars
FilesChangeBetweenRequests == [][(fs' # fs) => (pc = "done" /\ step = 1)]_vars

\* ---- observations: deviations from what HTTP asks for that cannot hand anybody wrong bytes.  TLC refutes
\*      each of them on this model (StaticCond_observe.cfg, not part of ./check); none is judged on the code.
\* (a) an identity answer of a resource that has siblings does not say Vary: Accept-Encoding
VaryStrict == Cur /\ R.status = 200 /\ Present(fs) # {} => R.wire.vary
\* (b) a 304 that passes the gzip middleware is relabelled (W/ tag, Content-Encoding: gzip) even when the
\*     200 it stands for carried a sibling with a strong tag; with min_length the 304 of an on-the-fly
\*     compressed resource keeps the strong tag although the 200 had the weak one
NotModifiedTagCoherent == Second2 /\ R.status = 304 /\ req.ae = ae1 => (R.wire.etag.w = R1.wire.etag.w /\ R.wire.ce \in {"none", R1.wire.ce})
\* (c) Last-Modified / If-Modified-Since / If-Range: <date> follow the original, not the file served
DateTracksSelected == Second2 /\ req.cond = "ims" /\ chg = "sel" => R.status = 200

\* ---- case emission ----------------------------------------------------------------------------------
OutResp(r) == [status |-> r.status, ce |-> r.wire.ce, cl |-> r.wire.cl, weak |-> r.wire.etag.w, hastag |-> HasTag(r.wire.etag),
               lm |-> r.wire.lm, vary |-> r.wire.vary, ct |-> r.wire.ct, cr |-> r.wire.cr, ar |-> r.wire.ar,
               body |-> r.body, sel |-> r.sel]
WorldOut(w) == [f \in Files |-> [ex |-> w[f].ex, mt |-> w[f].mt, ver |-> w[f].ver, size |-> w[f].size]]
Case(dummy) ==
    [fam |-> fam, site |-> site.name, world |-> WorldOut(fs0), after |-> WorldOut(fs), ae1 |-> ae1.text, chg |-> chg,
     ae2 |-> req.ae.text, cond |-> req.cond, rng |-> req.rng, ifr |-> req.ifr, twin |-> twin,
     r1 |-> OutResp(resp[1]), r2 |-> OutResp(resp[2]),
     \* does the ETag of the file the second request selects equal the first answer's (as text, W/ apart)?
     sametag |-> WeakMatch(resp[1].wire.etag, TagOf(resp[2].sel)),
     samerep |-> (resp[2].sel = resp[1].sel /\ fs[resp[1].sel].ver = resp[1].selver /\ fs[resp[1].sel].mt = resp[1].selmt)]
Emit == Terminal => PrintT(<<"CASE", ToJson(Case(0))>>)
=============================================================================
