-------------------------- MODULE ProxyHealthTrace --------------------------
(***************************************************************************)
(* Validates ndjson traces recorded from real upstreams (built with        *)
(* proxy.NewStaticUpstreams, probing scripted backends) against the        *)
(* fine-grained actions of ProxyHealth.tla.                                *)
(* Logged (sequence numbers under one harness mutex):                      *)
(*   script  - a new upstream: the proxy block's settings, the backends'   *)
(*             first modes (acts as reset)                                 *)
(*   probe   - a health GET is answered by backend h (mode m decides)      *)
(*   set     - the harness changes what backend h answers                  *)
(*   obs / obsres - one atomic load of UpstreamHost.Unhealthy /            *)
(*             HealthCheckResult by the harness                            *)
(*   call / ret - a bare upstream.Select: before the call, after it (host) *)
(*   call / fwd / end - Proxy.ServeHTTP: before the call, the request      *)
(*             arrives at backend h, the call returned (status)            *)
(*   fail / expire / take / release - the harness moves Fails / Conns      *)
(*   stopcall / stopsig / stopret - Stop() is called / the harness has     *)
(*             seen the stop channel closed / Stop() has returned          *)
(*   quiet   - some intervals after stopret have passed                    *)
(* Not logged, inferred by TLC: Tick, RoundBegin, StoreFlag, StoreRes,     *)
(* Exit, StopSignal, Scan, Pick, PickNil, Wake, TimeUp.                    *)
(***************************************************************************)
EXTENDS ProxyHealth

VARIABLE l
Trace == ndJsonDeserialize("trace.ndjson")
tvars == <<vars, l>>
E == Trace[l]
IsEvent(e) == l <= Len(Trace) /\ Trace[l].ev = e /\ l' = l + 1

Blank(n, md) ==
    /\ N' = n /\ mode' = md
    /\ flag' = [h \in 1..n |-> 0] /\ hres' = [h \in 1..n |-> "none"] /\ seen' = [h \in 1..n |-> "none"]
    /\ since' = [h \in 1..n |-> 0] /\ rs' = [h \in 1..n |-> 0]
    /\ cur' = 0 /\ tick' = FALSE /\ rounds' = 0 /\ late' = 0
    /\ stopSig' = FALSE /\ stopper' = "none"
    /\ fails' = [h \in 1..n |-> 0] /\ timers' = [h \in 1..n |-> 0] /\ conns' = [h \in 1..n |-> 0]
    /\ rpc' = [r \in Reqs |-> "new"] /\ rkind' = [r \in Reqs |-> "select"] /\ rhost' = [r \in Reqs |-> 0]
    /\ nsets' = 0 /\ nenv' = 0 /\ ncalls' = 0

TInit == /\ l = 1
         /\ N = 1 /\ HC = FALSE /\ Contains = FALSE /\ MaxFails = 1 /\ MaxConns = 0 /\ Retry = FALSE
         /\ mode = [h \in 1..1 |-> "ok"]
         /\ flag = [h \in 1..1 |-> 0] /\ hres = [h \in 1..1 |-> "none"] /\ seen = [h \in 1..1 |-> "none"]
         /\ since = [h \in 1..1 |-> 0] /\ rs = [h \in 1..1 |-> 0]
         /\ wpc = "none" /\ cur = 0 /\ tick = FALSE /\ rounds = 0 /\ late = 0
         /\ stopSig = FALSE /\ stopper = "none"
         /\ fails = [h \in 1..1 |-> 0] /\ timers = [h \in 1..1 |-> 0] /\ conns = [h \in 1..1 |-> 0]
         /\ rpc = [r \in Reqs |-> "new"] /\ rkind = [r \in Reqs |-> "select"] /\ rhost = [r \in Reqs |-> 0]
         /\ nsets = 0 /\ nenv = 0 /\ ncalls = 0 /\ hist = <<>>

\* a new upstream (NewStaticUpstreams is about to be called): everything back to Init
TScript == /\ IsEvent("script")
           /\ Blank(E.n, [h \in 1..E.n |-> E.modes[h]])
           /\ HC' = E.hc /\ Contains' = E.contains /\ MaxFails' = E.maxfails /\ MaxConns' = E.maxconns /\ Retry' = E.retry
           /\ wpc' = IF E.hc THEN "first" ELSE "none"

TProbe == IsEvent("probe") /\ cur = E.h /\ mode[E.h] = E.m /\ Probe
TSet == IsEvent("set") /\ E.h \in Hosts /\ SetMode(E.h, E.m)
TObs == IsEvent("obs") /\ E.h \in Hosts /\ flag[E.h] = E.f /\ UNCHANGED vars
TObsRes == IsEvent("obsres") /\ E.h \in Hosts /\ hres[E.h] = E.res /\ UNCHANGED vars
TCall == IsEvent("call") /\ ReqBegin(E.r, E.k)
\* a bare Select returned host h (0 = nil)
TRet == /\ IsEvent("ret") /\ rkind[E.r] = "select"
        /\ \/ E.h # 0 /\ rhost[E.r] = E.h /\ Deliver(E.r)
           \/ E.h = 0 /\ DeliverNil(E.r)
\* ServeHTTP: the request arrived at backend h ...
TFwd == IsEvent("fwd") /\ rkind[E.r] = "serve" /\ rhost[E.r] = E.h /\ Deliver(E.r)
\* ... ServeHTTP returned: 200 after a forward, 502 after Select kept yielding nothing
TEnd == /\ IsEvent("end") /\ rkind[E.r] = "serve"
        /\ \/ E.st = 200 /\ rpc[E.r] = "done" /\ rhost[E.r] # 0 /\ UNCHANGED vars
           \/ E.st = 502 /\ DeliverNil(E.r)
TFail == IsEvent("fail") /\ Fail(E.h)
TExpire == IsEvent("expire") /\ Expire(E.h)
TTake == IsEvent("take") /\ Take(E.h)
TRelease == IsEvent("release") /\ Release(E.h)
TStopCall == IsEvent("stopcall") /\ StopCall
\* the harness has seen the stop channel closed (hook VerifHealthStopClosed): StopSignal is behind us
TStopSig == IsEvent("stopsig") /\ stopSig /\ UNCHANGED vars
TStopRet == IsEvent("stopret") /\ StopReturn
TQuiet == IsEvent("quiet") /\ stopper = "returned" /\ UNCHANGED vars

Logged == TScript \/ TProbe \/ TSet \/ TObs \/ TObsRes \/ TCall \/ TRet \/ TFwd \/ TEnd
          \/ TFail \/ TExpire \/ TTake \/ TRelease \/ TStopCall \/ TStopSig \/ TStopRet \/ TQuiet
Silent == /\ UNCHANGED l
          /\ \/ (Tick /\ wpc = "idle" /\ ~stopSig)    \* (when a tick fired cannot be seen: early enough is enough)
             \/ RoundBegin \/ StoreFlag \/ StoreRes \/ Exit \/ StopSignal
             \/ \E r \in Reqs : \/ Scan(r) \/ PickNil(r) \/ Wake(r) \/ TimeUp(r)
                                \/ \E h \in Hosts : Pick(r, h)
TNext == (Logged \/ Silent) /\ UNCHANGED hist
TSpec == TInit /\ [][TNext]_tvars

Constr == TLCSet(1, IF l > TLCGet(1) THEN l ELSE TLCGet(1))
Accepted == IF TLCGet(1) = Len(Trace) + 1 THEN TRUE
            ELSE Print(<<"REJECTED at event", TLCGet(1), Trace[TLCGet(1)]>>, FALSE)
ASSUME TLCSet(1, 0)
=============================================================================
