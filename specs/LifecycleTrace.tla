-------------------------- MODULE LifecycleTrace --------------------------
(***************************************************************************)
(* Validates ndjson traces recorded from the real package casket (driven    *)
(* with the scriptable server type of harness/faketype) against            *)
(* Lifecycle.tla: every event must be an enabled action of the             *)
(* specification with the logged arguments, and every invariant of the     *)
(* property must hold in every state on the way.                           *)
(***************************************************************************)
EXTENDS Lifecycle

VARIABLE l
Trace == ndJsonDeserialize("trace.ndjson")

tvars == <<hist, pc, op, g, old, k, ph, inst, cb, srv, wg, instances, waiter, held, att, l>>

TInit == Init /\ l = 1
E == Trace[l]
IsEvent(e) == l <= Len(Trace) /\ Trace[l].ev = e /\ l' = l + 1

TCall == IsEvent("call") /\ BeginOp([t |-> E.op.t, lin |-> E.op.lin, n |-> E.op.n, f |-> E.op.f, file |-> E.op.file])

TCb == /\ IsEvent("cb")
       /\ \/ E.kind = "restart" /\ pc = "restartcb" /\ old = E.g /\ RestartCb
          \/ E.kind = "first" /\ g = E.g /\ FirstStartupCb
          \/ E.kind = "startup" /\ g = E.g /\ StartupCb
          \/ E.kind = "shutdown" /\ old = E.g /\ OldShutdownCb
          \/ E.kind = "restartfailed" /\ old = E.g /\ RestartFailedCb

TSetup == IsEvent("setup") /\ g = E.g /\ op.f # "parse" /\ Directives
\* a Casketfile that does not parse: the load fails before any setup function runs (nothing is logged)
TParseFail == pc = "dirs" /\ op.f = "parse" /\ Directives /\ UNCHANGED l

TListen == /\ IsEvent("listen") /\ pc = "listen" /\ g = E.g /\ k = E.k /\ ~Inherits(k)
           /\ (E.res = "err") = (op.f = "listen")
           /\ ListenStep
TInherit == IsEvent("inherit") /\ pc = "listen" /\ g = E.g /\ k = E.k /\ Inherits(k) /\ ListenStep

\* a server's Stop() is entered ...
TStop == /\ IsEvent("stop")
         /\ \/ pc = "oldstop" /\ old = E.g /\ k = E.k /\ StopOldCall
            \/ pc = "stop" /\ old = E.g /\ k = E.k /\ StopOpCall
            \/ pc = "stopall" /\ k = 0 /\ instances # <<>> /\ Head(instances) = E.g /\ E.k = 1 /\ StopAllPickCall
            \/ pc = "stopall" /\ k > 1 /\ old = E.g /\ k = E.k /\ StopAllCall
\* ... and has returned (the server has drained)
TStopped == /\ IsEvent("stopped") /\ old = E.g /\ k = E.k
            /\ \/ StopOldRet \/ StopOpRet \/ StopAllRet

\* casket.Stop's deferred Done()s happen before the harness can log the return: compose
ReleaseThenReturn ==
    /\ pc = "stopall" /\ instances = <<>> /\ k = 0 /\ ph = 0
    /\ wg' = [x \in Lins |-> wg[x] - Cardinality({y \in held : inst[y].lin = x})]
    /\ held' = {} /\ pc' = "idle"
    /\ UNCHANGED <<hist, op, g, old, k, ph, inst, cb, srv, instances, waiter, att>>

TRet == /\ IsEvent("ret")
        /\ \/ (E.res = "ok") = (pc = "retok") /\ Return
           \/ E.res = "ok" /\ ReleaseThenReturn
        /\ Len(instances') = E.ninst        \* len(casket.Instances()) as observed by the harness

TServeBegin == IsEvent("serveBegin") /\ ServeBegin(E.g, E.k)
TServeEnd == IsEvent("serveEnd") /\ ServeEnd(E.g, E.k)
TSpEnd == IsEvent("spEnd") /\ ServePacketEnd(E.g, E.k)
TWaitCall == IsEvent("waitCall") /\ WaitCall(E.lin)

ReleaseThenWaitReturn(x) ==
    /\ pc = "stopall" /\ instances = <<>> /\ k = 0 /\ ph = 0 /\ waiter[x] = "waiting"
    /\ wg[x] - Cardinality({y \in held : inst[y].lin = x}) = 0
    /\ wg' = [z \in Lins |-> wg[z] - Cardinality({y \in held : inst[y].lin = z})]
    /\ held' = {} /\ pc' = "retok"
    /\ waiter' = [waiter EXCEPT ![x] = "returned"]
    /\ UNCHANGED <<hist, op, g, old, k, ph, inst, cb, srv, instances, att>>
TWaitRet == IsEvent("waitRet") /\ (WaitReturn(E.lin) \/ ReleaseThenWaitReturn(E.lin))

TReset == /\ IsEvent("reset")
          /\ hist' = <<>> /\ pc' = "idle" /\ op' = NoOp /\ g' = NoGen /\ old' = NoGen /\ k' = 0 /\ ph' = 0
          /\ inst' = [x \in Gens |-> NoInst]
          /\ cb' = [x \in Gens |-> [kd \in Kinds |-> 0]]
          /\ srv' = [x \in Gens |-> [j \in 1..2 |-> NoSrv]]
          /\ wg' = [x \in Lins |-> 0]
          /\ instances' = <<>>
          /\ waiter' = [x \in Lins |-> "none"]
          /\ held' = {}
          /\ att' = [x \in Gens |-> [calls |-> 0, failed |-> 0]]

TNext == TCall \/ TCb \/ TSetup \/ TParseFail \/ TListen \/ TInherit \/ TStop \/ TStopped \/ TRet \/ TServeBegin \/ TServeEnd
         \/ TSpEnd \/ TWaitCall \/ TWaitRet \/ TReset
TSpec == TInit /\ [][TNext]_tvars

Constr == TLCSet(1, IF l > TLCGet(1) THEN l ELSE TLCGet(1))
Accepted == IF TLCGet(1) = Len(Trace) + 1 THEN TRUE
            ELSE Print(<<"REJECTED at event", TLCGet(1), Trace[TLCGet(1)]>>, FALSE)
ASSUME TLCSet(1, 0)
=============================================================================
