#!/usr/bin/env python3
"""keep_seed.py <src dir> <seed id> <property> <demo target dir> <detected: yes|no|partly> <needs...>: stores a confirmed seeded change under /verif/seeded/<id>/."""
import json, os, shutil, sys, glob
src, sid, prop, target, detected = sys.argv[1:6]
needs = " ".join(sys.argv[6:])
d = os.path.join("/verif/seeded", sid)
os.makedirs(d, exist_ok=True)
shutil.copy(os.path.join(src, "patch.diff"), d)
for f in glob.glob(os.path.join(src, "zz_*_test.go")) + glob.glob(os.path.join(src, "README.md")):
    shutil.copy(f, d)
meta = dict(id=sid, property=prop, breaks=prop, needs_to_manifest=needs, demo_goes_to=target,
            confirmed=dict(how="verify_seed.sh in a scratch worktree of /repo HEAD: demo passes without the change; with the change go build ./... ok, go test ./... passes, demo fails",
                           result="CONFIRMED"),
            check=dict(how="seedtest.sh patch.diff %s (patch applied to a scratch worktree, ./check run with VERIF_REPO pointing at it)" % prop, detected=detected))
json.dump(meta, open(os.path.join(d, "meta.json"), "w"), indent=1)
print("kept", d)
